"""Known findings: committed list (known_findings.json) of genuine defects recorded rather than
repaired, each identified by a named predicate on the failing case so that a *different* violation of
the same property is still reported.  "fixed" entries are a record only and suppress nothing.
The file is never written at run time."""
import json
import os

from . import common

MATCHERS = {}


def matcher(name):
    def deco(fn):
        MATCHERS[name] = fn
        return fn
    return deco


class KnownFindings:
    def __init__(self):
        path = os.path.join(common.VERIF, "known_findings.json")
        self.entries = []
        if os.path.exists(path):
            with open(path) as f:
                self.entries = json.load(f).get("findings", [])

    def entries_for(self, pid):
        return [e for e in self.entries if e.get("property") == pid]

    def match(self, pid, case, violation):
        for e in self.entries:
            if e.get("status") != "known" or e.get("property") != pid:
                continue
            fn = MATCHERS.get(e.get("matcher"))
            if fn is None:
                continue
            try:
                if fn(case, violation, e.get("args", {})):
                    return e
            except Exception:
                continue
        return None


# ---------------------------------------------------------------------------------------------
# matchers (one per known finding; each names the failing input class precisely)
# ---------------------------------------------------------------------------------------------

def _scc_arcs(case):
    from . import oracles as O
    E = [(a[0], a[1]) for a in case["arcs"]]
    g = O.STGraph(case["nodes"], E)
    return [a for a in case["arcs"] if g.is_scc_arc(a[0], a[1])]


@matcher("float_flow_scaled_below_one_on_scc_arc_unsolved")
def _m_scale(case, v, args):
    """D11: kFlowDecompCycles caps an arc's repetitions at its raw flow value; after multiplying the flows by
    c < 1 (float weights) an arc inside an SCC gets an integer repetition variable with upper bound
    floor(c*f) < the repetitions its walk needs, and the feasible instance becomes infeasible (unsolved)."""
    if v.get("kind") != "scale_dependent_down":
        return False
    c = v.get("scale")
    if c is None or c >= 1:
        return False
    if v.get("scaled") != [False, None] or not v.get("unscaled") or v["unscaled"][0] is not True:
        return False
    import math
    return any(math.floor(a[2] * c + 1e-12) < a[2] for a in _scc_arcs(case))
