"""Known findings: committed list (known_findings.json) of genuine defects recorded rather than
repaired, each identified by a named predicate on the failing case so that a *different* violation of
the same property is still reported.  "fixed" entries are a record only and suppress nothing.
The file is never written at run time."""
import json
import os

from . import common

MATCHERS = {}


def matcher(name):
    def deco(fn):
        MATCHERS[name] = fn
        return fn
    return deco


class KnownFindings:
    def __init__(self):
        path = os.path.join(common.VERIF, "known_findings.json")
        self.entries = []
        if os.path.exists(path):
            with open(path) as f:
                self.entries = json.load(f).get("findings", [])

    def entries_for(self, pid):
        return [e for e in self.entries if e.get("property") == pid]

    def match(self, pid, case, violation):
        for e in self.entries:
            if e.get("status") != "known" or e.get("property") != pid:
                continue
            fn = MATCHERS.get(e.get("matcher"))
            if fn is None:
                continue
            try:
                if fn(case, violation, e.get("args", {})):
                    return e
            except Exception:
                continue
        return None
