"""Known findings: committed list (known_findings.json) of genuine defects recorded rather than
repaired, each identified by a named predicate on the failing case so that a *different* violation of
the same property is still reported.  "fixed" entries are a record only and suppress nothing.
The file is never written at run time."""
import json
import os

from . import common

MATCHERS = {}


def matcher(name):
    def deco(fn):
        MATCHERS[name] = fn
        return fn
    return deco


class KnownFindings:
    def __init__(self):
        path = os.path.join(common.VERIF, "known_findings.json")
        self.entries = []
        if os.path.exists(path):
            with open(path) as f:
                self.entries = json.load(f).get("findings", [])

    def entries_for(self, pid):
        return [e for e in self.entries if e.get("property") == pid]

    def match(self, pid, case, violation):
        for e in self.entries:
            if e.get("status") != "known" or e.get("property") != pid:
                continue
            fn = MATCHERS.get(e.get("matcher"))
            if fn is None:
                continue
            try:
                if fn(case, violation, e.get("args", {})):
                    return e
            except Exception:
                continue
        return None


# ---------------------------------------------------------------------------------------------
# matchers (one per known finding; each names the failing input class precisely)
# ---------------------------------------------------------------------------------------------

def _scc_arcs(case):
    from . import oracles as O
    E = [(a[0], a[1]) for a in case["arcs"]]
    g = O.STGraph(case["nodes"], E)
    return [a for a in case["arcs"] if g.is_scc_arc(a[0], a[1])]


@matcher("float_flow_scaled_below_one_on_scc_arc_unsolved")
def _m_scale(case, v, args):
    """D11: kFlowDecompCycles caps an arc's repetitions at its raw flow value; after multiplying the flows by
    c < 1 (float weights) an arc inside an SCC gets an integer repetition variable with upper bound
    floor(c*f) < the repetitions its walk needs, and the feasible instance becomes infeasible (unsolved)."""
    if v.get("kind") != "scale_dependent_down":
        return False
    c = v.get("scale")
    if c is None or c >= 1:
        return False
    if not v.get("unscaled") or v["unscaled"][0] is not True:
        return False
    if v.get("optimal_within_cap") is not True:
        # the check brute-forced the family of walks within the cap: the answer is explained only if it is the optimum there
        return False
    import math
    return any(math.floor(a[2] * c + 1e-12) < a[2] for a in _scc_arcs(case))


def _reach_caps(case):
    """independent recomputation of the per-arc repetition cap the cyclic LAE/MPE models use: the largest weight
    among the arc itself, arcs reachable forward from its head and arcs that can reach its tail"""
    from . import oracles as O
    E = [(a[0], a[1]) for a in case["arcs"]]
    w = {(a[0], a[1]): (a[2] or 0) for a in case["arcs"]}
    g = O.STGraph(case["nodes"], E)
    caps = {}
    for (u, v) in E:
        fw = g.reach_fwd(v)
        bw = g.reach_bwd(u)
        best = w[(u, v)]
        for (x, y) in E:
            if x in fw or y in bw:
                best = max(best, w[(x, y)])
        caps[(u, v)] = best
    return caps


@matcher("cyclic_optimum_needs_more_traversals_than_max_reachable_weight")
def _m_cap(case, v, args):
    """D10: kLeastAbsErrorsCycles / kMinPathErrorCycles allow an arc at most (largest weight in its reach) traversals
    per walk. The check itself establishes the cause: it re-runs the brute force with the walk family restricted to
    those caps (recomputed independently by _reach_caps) and uses the *_beyond_cap kinds only when the library is
    optimal within the caps, i.e. the better witness necessarily traverses some arc more often than its cap."""
    return case.get("fam") == "cyc" and v.get("kind") in ("lae_not_optimal_beyond_cap", "mpe_not_optimal_beyond_cap", "mpe_unsolved_beyond_cap",
                                                         "constrained_optimum_beyond_cap")


@matcher("minflowdecompcycles_nonconserving_flow_not_rejected")
def _m_mfdc_noncons(case, v, args):
    """MinFlowDecompCycles documents 'ValueError if the graph does not satisfy flow conservation' but performs no such check:
    a non-conserving flow (edge mode, nothing ignored) is searched for every k and ends unsolved without an error."""
    return (v.get("kind") == "invalid_input_not_rejected" and case.get("cls") == "MinFlowDecompCycles"
            and case.get("origin") == "edge" and any(m in ("nonconserving", "nonconserving_quarter") for m in (case.get("muts") or []))
            and all(m in ("nonconserving", "nonconserving_quarter", "k_frac") for m in case.get("muts")))


@matcher("min_gen_set_bound_false_infeasible_at_multiplicity_37719")
def _m_mgs_mult(case, v, args):
    """MGS-MULT: MinFlowDecompCycles(weight_type=float, use_min_gen_set_lowerbound=True) asks MinGenSet for a generating set with
    max_multiplicity = largest flow value. On the recorded instance (self-loop carrying 37719 = 27 x 1397) the integer x continuous
    product rows of the k = 2 model (16-bit multipliers, products of 1e8-1e9 against tolerances of 1e-9) are declared infeasible with
    presolve on and off, the bound becomes 3 and a 3-walk answer is returned although the reference run exhibits 2 walks. The check
    establishes the cause (kind lower_bound_above_optimum: the lower bound the model used exceeds the exhibited optimum, and the
    answer has exactly that size); only this instance with the generating-set options matches."""
    return (v.get("kind") == "lower_bound_above_optimum" and case.get("cls") == "MinFlowDecompCycles"
            and case.get("hand_mfd") == "cyc:selfloops_multiplicity_37719" and ("mingenset" in (v.get("opt") or "") or "mgs" in (v.get("opt") or ""))
            and v.get("lower_bound_used") == 3)


@matcher("antichain_total_weight_above_2_pow_32")
def _m_antichain_big(case, v, args):
    """AC-2POW32: stDAG.compute_max_edge_antichain reduces to a min-cost flow whose arc capacities and source supply are the constant
    graphutils.bigNumber = 2^32; a weight function whose total exceeds it makes the flow infeasible, the helper returns (None, None)
    and the query answers None / raises TypeError. Only antichain verdicts on weight functions with total > 2^32 match."""
    return v.get("kind") in ("antichain_exception", "antichain_wrong") and v.get("total_weight", 0) > 2 ** 32
