"""Instance alphabets for flow-decomposition style checks (pure Python, usable in the parent process)."""
import itertools

from . import oracles as O


def dag_routes(names, arcs, starts=(), ends=()):
    g = O.STGraph(names, arcs, starts, ends)
    return g, g.simple_paths()


def fd_flows(routes_arcs, E, max_routes, max_w, positive=True):
    """All flows (tuples aligned with E) that are superpositions of <= max_routes routes with weights in 1..max_w.
    routes_arcs: list of dict arc->multiplicity (or arc lists). De-duplicated by the resulting flow."""
    vecs = []
    for r in routes_arcs:
        if isinstance(r, dict):
            vecs.append(tuple(r.get(e, 0) for e in E))
        else:
            vecs.append(tuple(sum(1 for a in r if a == e) for e in E))
    vecs = sorted(set(vecs))
    flows = {}
    for r in range(1, max_routes + 1):
        for ps in itertools.combinations(range(len(vecs)), r):
            for ws in itertools.product(range(1, max_w + 1), repeat=r):
                f = tuple(sum(w * vecs[p][j] for p, w in zip(ps, ws)) for j in range(len(E)))
                if positive and not all(x > 0 for x in f):
                    continue
                if f not in flows:
                    flows[f] = [(list(vecs[p]), w) for p, w in zip(ps, ws)]
    return flows


def node_values(names, routes_nodes_weights):
    nv = {v: 0 for v in names}
    for nodes, w in routes_nodes_weights:
        for v in nodes:
            nv[v] += w
    return nv


def dag_constraints(paths, maxlen=3):
    """every contiguous sub-path of 2..maxlen arcs, and every non-contiguous ordered pair of arcs on a common path"""
    contig = []
    noncontig = []
    for p in paths:
        pa = O.path_arcs(p)
        for L in range(2, maxlen + 1):
            for i in range(len(pa) - L + 1):
                c = pa[i:i + L]
                if c not in contig:
                    contig.append(c)
        for i in range(len(pa)):
            for j in range(i + 2, len(pa)):
                c = [pa[i], pa[j]]
                if c not in noncontig:
                    noncontig.append(c)
    return contig, noncontig
