"""C01 - returned paths/walks are real source-to-sink routes of the caller's graph."""
import collections

from .. import world, drivers, preds, sweep, common
from .. import oracles as O

SPEC = {
    "id": "C01",
    "level": "exploration",
    "design_ref": "DESIGN.md section 5, C01",
    "rule": ("cases = (every exported model class, incl. NumPathsOptimization wrappers) x (instance: shape of W-DAG / W-DIG / W-NAMED with 2 flows); inside: the base call and every "
             "single deviation in {k+1, float weights, node mode, ignored element, additional start, additional end, constraint, empty routes allowed, each optimisation flag flipped, all "
             "optimisations off} (thorough: also pairs of flag flips and node mode x feature); judged on every solved model against a copy of the caller's graph taken before the call: "
             "nodes in V, consecutive nodes are arcs, endpoints are sources/sinks or declared starts/ends, DAG paths simple, one non-negative weight (slack) per route, count <= k and "
             "== k when empty routes are not allowed and no additional start/end is declared. non-trivial = distinct (class, instance, configuration) solved with >= 1 non-empty route"),
    "assumptions": ["ValueError at construction for documented incompatible flag combinations is counted, not judged"],
}


def bounds(tier):
    q = tier == "quick"
    return {"dag": "W-DAG(n<=4) x 2 flows" if q else "W-DAG(n<=5, arcs<=6) x 2 flows", "cyclic": "cyclic W-DIG(n<=4, arcs<=5)+named x 2 flows" if q else "cyclic W-DIG(n<=4, arcs<=6)+W-NAMED x 2 flows",
            "flag_deviations": 1 if q else 2}


CLASSES = sweep.DAG_CLASSES + sweep.CYC_CLASSES


def cases(tier, seed):
    for inst in sweep.dag_float_data_instances(tier, seed):
        for cls in ("kFlowDecomp", "MinFlowDecomp", "kMinPathError", "kLeastAbsErrors"):
            yield dict(inst, cls=cls, level=0)
    for inst in sweep.dag_zero_flow_instances(tier, seed, per_shape=1):
        for cls in ("kFlowDecomp", "MinFlowDecomp", "kMinPathError", "kLeastAbsErrors"):
            yield dict(inst, cls=cls, level=0)
    insts = sweep.dag_instances(tier, seed) + sweep.cyc_instances(tier, seed)
    for inst in insts:
        classes = sweep.DAG_CLASSES + (["NumPaths:kMinPathError", "NumPaths:kLeastAbsErrors"] if True else []) if inst["fam"] == "dag" else sweep.CYC_CLASSES
        for cls in classes:
            yield dict(inst, cls=cls, level=1 if tier == "quick" else 2)
        if inst["fam"] == "dag":
            # a DAG given to the cyclic classes
            for cls in sweep.CYC_CLASSES[:2] + sweep.CYC_CLASSES[4:]:
                yield dict(inst, cls=cls, level=0, fam="dag")


def _solve(inst, cls, kw):
    import flowpaths as fp
    if cls.startswith("NumPaths:"):
        inner = cls.split(":")[1]
        G = drivers.build_graph(inst)
        kw2 = drivers.decode_kw({k: v for k, v in kw.items() if k != "k"})
        obs = {"exc": None, "exc_type": None, "solved": None, "sol": None, "obj": None, "model": None, "phase": "construct"}
        try:
            m = fp.NumPathsOptimization(model_type=getattr(fp, inner), stop_on_first_feasible=True, min_num_paths=1, max_num_paths=6, G=G, flow_attr="flow",
                                        solver_options={"threads": 1}, **kw2)
            obs["model"] = m
            obs["phase"] = "solve"
            m.solve()
            obs["solved"] = bool(m.is_solved())
            if obs["solved"]:
                obs["sol"] = m.get_solution()
                obs["obj"] = m.get_objective_value()
                obs["k_used"] = m.model.k
        except Exception as e:  # noqa
            obs["exc"] = common.exc_str(e)
            obs["exc_type"] = type(e).__name__
        return obs
    return drivers.observe(dict(inst, cls=cls, kw=kw))


def run(case):
    viol = []
    nt = []
    tags = collections.Counter()
    cls = case["cls"]
    base_cls = cls.split(":")[1] if cls.startswith("NumPaths:") else cls
    cyc = sweep.is_cyc(base_cls)
    rkey = "walks" if cyc else "paths"
    inst = {k: case[k] for k in ("fam", "nodes", "arcs")}
    E = [(a[0], a[1]) for a in inst["arcs"]]
    key = world.shape_key((len(inst["nodes"]), tuple(E))) + "|" + ",".join(str(a[2]) for a in inst["arcs"]) + "|" + cls
    is_k = base_cls.startswith("k") and not cls.startswith("NumPaths:")
    cover = base_cls in sweep.COVER
    ckey = "subset_constraints" if cyc else "subpath_constraints"
    width = sweep.width_of(inst)
    inner = sweep.inner_nodes(inst)

    # a feasible k for the k-models: FD needs the decomposition optimum -> ask the Min* sibling once
    k0 = width
    if base_cls in ("kFlowDecomp", "kFlowDecompCycles"):
        sib = "MinFlowDecomp" if base_cls == "kFlowDecomp" else "MinFlowDecompCycles"
        o = drivers.observe(dict(inst, cls=sib, kw={"weight_type": "float" if case.get("float_data") else "int"}))
        if not o["solved"]:
            return {"v": [], "nt": None, "tags": {"no_feasible_k": 1}, "out": "skip"}
        k0 = len(o["sol"][rkey])
    if base_cls in ("kLeastAbsErrors", "kLeastAbsErrorsCycles"):
        k0 = max(1, min(width, 2))
    sib_weights = list(o["sol"]["weights"]) if base_cls == "kFlowDecomp" else None

    def cfg(name, kw_over=None, inst_over=None, ignored=(), starts=(), ends=(), allow_empty=False, origin="edge"):
        return {"name": name, "kw": kw_over or {}, "inst": inst_over, "ignored": ignored, "starts": starts, "ends": ends, "allow_empty": allow_empty, "origin": origin}

    cfgs = [cfg("base")]
    if is_k:
        cfgs.append(cfg("k+1", {"k": k0 + 1}))
        cfgs.append(cfg("k+2", {"k": k0 + 2}))
    if not cover:
        cfgs.append(cfg("float", {"weight_type": "float"}))
        if base_cls in sweep.ERRM:
            cfgs.append(cfg("perturbed", inst_over=sweep.perturbed(inst)))
    if sib_weights is not None and not case.get("float_data"):
        # given weights: the superset is LONGER than k (one model layer per entry); still at most k non-empty paths may come back
        pool = sorted(sib_weights) + [1, max(sib_weights) + 2]
        for kk in sorted({max(1, k0 - 1), k0}):
            cfgs.append(cfg(f"weights_superset,k={kk}", {"k": kk, "solution_weights_superset": pool}, allow_empty=True))
    nt_inst = sweep.node_twin(inst)
    okey = "cover_type" if cover else "flow_attr_origin"
    cfgs.append(cfg("node", {okey: "node"}, inst_over=nt_inst, origin="node"))
    # a node without arcs (source and sink at once): its single-node route counts like any other
    iso_inst, _q = sweep.with_isolated_node(nt_inst)
    cfgs.append(cfg("node+isolated", dict({okey: "node"}, **({"k": k0 + 1} if is_k else {})), inst_over=iso_inst, origin="node"))
    if len(E) > 1:
        e0 = E[0]
        w_ign = sweep.width_of(inst, ignored=[e0])
        if w_ign and w_ign >= 1:
            cfgs.append(cfg("ignore", {"elements_to_ignore": [list(e0)]}, ignored=[e0]))
    if base_cls in sweep.ACCEPTS_STARTS and inner:
        cfgs.append(cfg("add_start", {"additional_starts": [inner[0]]}, starts=[inner[0]]))
        cfgs.append(cfg("add_end", {"additional_ends": [inner[-1]]}, ends=[inner[-1]]))
        for v in inner[:2]:
            cfgs.append(cfg("node+add_start", {okey: "node", "additional_starts": [v]}, inst_over=nt_inst, starts=[v], origin="node"))
            cfgs.append(cfg("node+add_end", {okey: "node", "additional_ends": [v]}, inst_over=nt_inst, ends=[v], origin="node"))
    con = sweep.a_constraint(inst)
    if con:
        cfgs.append(cfg("constraint", {ckey: [con]}))
    ae = "allow_empty_walks" if cyc else "allow_empty_paths"
    if is_k:
        cfgs.append(cfg("allow_empty", {"k": k0 + 1, "optimization_options": {ae: True}}, allow_empty=True))
    for fname, fl in sweep.flag_sets(base_cls, case["level"])[1:]:
        cfgs.append(cfg(f"flags:{fname}", {"optimization_options": dict(fl)}))
    # solver answers within tolerance: every value read from the solver shifted by -/+ 5e-10 (0.9999999995 is still 'on the route')
    if not cls.startswith("NumPaths:"):
        cfgs.append(cfg("noise-"))
        cfgs.append(cfg("noise+"))

    if case.get("float_data"):
        import flowpaths.utils.graphutils as gu
        if base_cls in ("kFlowDecomp", "MinFlowDecomp") and not gu.check_flow_conservation(drivers.build_graph(inst), "flow"):
            return {"v": [], "nt": None, "tags": {"float_data_not_exactly_conserving(skipped)": 1}, "out": "skip"}
        cfgs = [c for c in cfgs if c["name"] in ("base", "k+1", "k+2", "float", "constraint")]
    for c in cfgs:
        kw = {}
        if is_k:
            kw["k"] = k0
        if not cover:
            kw["weight_type"] = "float" if case.get("float_data") else "int"
        kw.update(c["kw"])
        use = c["inst"] or inst
        if c["name"].startswith("noise"):
            from .. import faults
            if base_cls in ("kFlowDecomp", "MinFlowDecomp"):
                kw["optimization_options"] = {"optimize_with_greedy": False}
            with faults.ValueNoise(-5e-10 if c["name"].endswith("-") else 5e-10):
                obs = _solve(use, cls, kw)
        else:
            obs = _solve(use, cls, kw)
        tags[f"cfg:{c['name'].split(':')[0]}"] += 1
        ctx = f"{cls}({c['name']}: {kw})"
        if obs["exc"]:
            if obs["exc_type"] == "ValueError" and c["name"].startswith("flags:") and "Cannot optimize with both" in obs["exc"]:
                tags["flag_combo_rejected_by_constructor"] += 1
                continue
            viol.append({"kind": "exception_on_valid_input", "msg": f"{ctx} raised {obs['exc']} in {obs['phase']}"})
            continue
        if not obs["solved"]:
            tags["unsolved"] += 1
            continue
        sol = obs["sol"]
        routes = sol.get(rkey) if isinstance(sol, dict) else None
        k_eff = kw.get("k") if is_k else (obs.get("k_used") if cls.startswith("NumPaths:") else None)
        exact = (is_k or cls.startswith("NumPaths:")) and not c["allow_empty"] and not c["starts"] and not c["ends"]
        wt = kw.get("weight_type") if not cover else None
        errs = preds.shape_errors(sol, rkey, k=k_eff, exact_k=exact, weight_type=wt, need_weights=not cover)
        if not errs:
            errs = preds.route_errors(use, routes, cyc, c["starts"], c["ends"])
        if errs:
            viol.append({"kind": "invalid_routes", "cfg": c["name"], "msg": f"{ctx}: {errs[0]}", "solution": {rkey: routes, "weights": sol.get("weights") if isinstance(sol, dict) else None}})
        elif any(len(r) > 0 for r in routes):
            nt.append(f"{key}|{c['name']}")
        if len(viol) > 5:
            break
    seen = collections.Counter()
    out = []
    for v in viol:
        seen[v["kind"] + str(v.get("cfg"))] += 1
        if seen[v["kind"] + str(v.get("cfg"))] <= 1:
            out.append(v)
    return {"v": out[:5], "nt": nt, "tags": dict(tags), "out": "viol" if viol else "ok"}
