"""C04 - MinFlowDecompCycles finds a decomposition into the fewest walks; scale invariance.

One case = (cyclic digraph shape, positive integer flow that is a superposition of walk multiplicity vectors).
Oracle: minimum number of walk vectors x <= f (exact for integer weights >= 1) with positive integer weights
summing to f on the non-ignored arcs, subset constraints satisfied by one vector's support."""
import collections
import itertools

from .. import world, drivers, preds, fdworld
from .. import oracles as O

SPEC = {
    "id": "C04",
    "level": "exploration",
    "design_ref": "DESIGN.md section 5, C04",
    "rule": ("cases = (shape of W-DIG with a cycle, W-NAMED) x (every positive flow, max value <= F, that is a superposition of <= R walk "
             "vectors with <= B traversals per arc and weights 1..W); inside: MinFlowDecompCycles with weight_type=int under option sets "
             "{default, safe sequences off, min-gen-set bound, guessed weights (+free walks, +gen set)}, every single ignored arc, subset "
             "constraints (pairs of arcs), node-weighted twin, and the float scale family c in {1,2,10,0.5,0.1}; "
             "non-trivial = distinct (shape, flow, variant) solved and compared with the brute-force minimum where some walk repeats an arc or node"),
    "assumptions": ["integer weights >= 1 bound every walk's traversals of an arc by the arc's flow, so the walk-vector family x <= f is complete",
                    "scale part is metamorphic: (solved, number of walks) under float weights must not depend on the common factor"],
}

OPTION_SETS = [
    ("default", {}),
    ("no_safety", {"optimize_with_safe_sequences": False}),
    ("mingenset", {"use_min_gen_set_lowerbound": True}),
    ("guessed", {"optimize_with_guessed_weights": True}),
    ("guessed_free", {"optimize_with_guessed_weights": True, "optimize_with_given_weights_num_free_walks": 1}),
    ("guessed_mgs", {"optimize_with_guessed_weights": True, "use_min_gen_set_lowerbound": True, "add_min_gen_set_to_given_weights": True}),
]


def bounds(tier):  # (+ every DAG shape with <= 3 / 4 arcs given to the cyclic class)
    if tier == "quick":
        return {"shapes": "cyclic shapes of W-DIG(n<=4, arcs<=5) + named shapes with <=6 arcs", "R": 2, "B": 2, "W": 2, "F": 4, "flows_per_shape": "all"}
    return {"shapes": "cyclic shapes of W-DIG(n<=4, arcs<=6) + W-NAMED", "R": 2, "B": 2, "W": 2, "F": 4, "flows_per_shape": "all (named: first 12)"}


def _flows(names, arcs, R, B, W, F):
    g = O.STGraph(names, arcs)
    vecs = O.walk_vectors(g, {e: B for e in g.arcs})
    vs = sorted(set(v for v, _, _ in vecs))
    flows = set()
    for r in range(1, R + 1):
        for combo in itertools.combinations(vs, r):
            for ws in itertools.product(range(1, W + 1), repeat=r):
                f = tuple(sum(w * v[j] for v, w in zip(combo, ws)) for j in range(len(arcs)))
                if all(x > 0 for x in f) and max(f) <= F:
                    flows.add(f)
    return sorted(flows)


def cases(tier, seed):
    q = tier == "quick"
    shapes = [s for s in world.dig_shapes(4, 5 if q else 6) if not world.is_acyclic(*s)]
    named = world.named_shapes()
    if q:
        named = [s for s in named if len(s[1]) <= 6]
    for idx, shp in enumerate(shapes + named):
        names, arcs = world.present(shp, seed, idx)
        fl = _flows(names, arcs, 2, 2, 2, 4)
        if len(arcs) > 6:
            fl = fl[:12]
        for i, fv in enumerate(fl):
            yield {"nodes": names, "arcs": [[u, v, w] for (u, v), w in zip(arcs, fv)], "full": (i % 3 == 0) or not q}
    # acyclic inputs are in the domain of the cyclic class too: every DAG shape with <= 3 (thorough 4) arcs, flows from <= 3 routes
    # (single arcs and stars need as many walks as the graph has arcs - the upper end of the search over k)
    for idx, shp in enumerate(world.dag_shapes(4)):
        if len(shp[1]) > (3 if q else 4):
            continue
        names, arcs = world.present(shp, seed, 700 + idx)
        for i, fv in enumerate(_flows(names, arcs, 3, 1, 2, 4)[:6]):
            yield {"nodes": names, "arcs": [[u, v, w] for (u, v), w in zip(arcs, fv)], "full": i == 0, "dag_input": True}


def _solve(case, G, kw):
    return drivers.observe(dict(case, cls="MinFlowDecompCycles", kw=kw), G)


def run(case):
    viol = []
    nt = []
    tags = collections.Counter()
    V = case["nodes"]
    E = [(a[0], a[1]) for a in case["arcs"]]
    f = {(a[0], a[1]): a[2] for a in case["arcs"]}
    g = O.STGraph(V, E)
    key = world.shape_key((len(V), tuple(E))) + "|" + ",".join(str(f[e]) for e in E)
    G = drivers.build_graph(case)
    vec_all = O.walk_vectors(g, f)
    vecs = sorted(set(v for v, _, _ in vec_all))

    def cols(elements):
        idx = [E.index(e) for e in elements]
        return [[v[i] for i in idx] for v in vecs]

    def judge(ctx, obs, opt, ignored=(), gcase=None, cons=None, origin="edge", starts=(), ends=()):
        gcase = gcase or case
        if obs["exc"]:
            viol.append({"kind": "mfdc_exception", "msg": f"{ctx} raised {obs['exc']} in {obs['phase']}"})
            return False
        if not obs["solved"]:
            viol.append({"kind": "mfdc_unsolved", "msg": f"{ctx}: not solved although a decomposition into {opt} walks exists"})
            return False
        sol = obs["sol"]
        routes = sol.get("walks")
        errs = preds.shape_errors(sol, "walks", weight_type="int")
        if not errs:
            errs += preds.route_errors(gcase, routes, True, starts, ends)
        if not errs:
            errs += preds.explain_errors(gcase, routes, sol["weights"], origin, ignored, "int")
        if not errs and cons:
            errs += preds.constraint_errors(routes, cons, 1.0, True)
        if errs:
            viol.append({"kind": "mfdc_invalid_solution", "msg": f"{ctx}: {errs[0]}", "solution": {"walks": routes, "weights": sol.get("weights")}})
            return False
        if len(routes) != opt or obs["obj"] != opt:
            kind = "mfdc_not_minimum" if len(routes) > opt else "oracle_beaten"
            viol.append({"kind": kind, "msg": f"{ctx}: returned {len(routes)} walks (objective {obs['obj']}), brute-force minimum is {opt}",
                         "solution": {"walks": routes, "weights": sol.get("weights")}})
            return False
        if any(len(set(r)) < len(r) for r in routes):
            nt.append(f"{key}|{ctx}")
        return True

    fvec = [f[e] for e in E]
    opt, wit = O.min_decomp(cols(E), fvec, "int")
    if opt is None:
        raise AssertionError("flow built from walk vectors has no decomposition: oracle bug")
    for oname, oo in (OPTION_SETS if case["full"] else OPTION_SETS[:1]):
        obs = _solve(case, G, {"weight_type": "int", "optimization_options": dict(oo)})
        tags[f"opt:{oname}"] += 1
        judge(f"MinFlowDecompCycles(int, options={oname})", obs, opt)
        m = obs.get("model")
        if m is not None and obs["solved"] and getattr(m, "_given_weights_model", None) is not None and getattr(m, "fd_model", None) is m._given_weights_model:
            tags["route:given_weights_model_used"] += 1

    # scale family (float weights)
    base = None
    for c in (1, 2, 10, 0.5, 0.1):
        c2 = dict(case, arcs=[[a[0], a[1], a[2] * c] for a in case["arcs"]])
        obs = _solve(c2, drivers.build_graph(c2), {"weight_type": "float"})
        tags["scale"] += 1
        if obs["exc"]:
            viol.append({"kind": "mfdc_exception", "msg": f"MinFlowDecompCycles(float, scale {c}) raised {obs['exc']}"})
            continue
        cur = (obs["solved"], len(obs["sol"]["walks"]) if obs["solved"] else None)
        if obs["solved"]:
            errs = preds.route_errors(c2, obs["sol"]["walks"], True) + preds.explain_errors(c2, obs["sol"]["walks"], obs["sol"]["weights"], "edge", [], "float")
            if errs:
                viol.append({"kind": "mfdc_invalid_solution", "msg": f"float scale {c}: {errs[0]}"})
        if base is None:
            base = cur
            if not cur[0]:
                viol.append({"kind": "mfdc_unsolved", "msg": "MinFlowDecompCycles(float, scale 1): not solved although an integer decomposition exists"})
            elif cur[1] > opt:
                viol.append({"kind": "mfdc_not_minimum", "msg": f"float weights: {cur[1]} walks although an integer-weighted decomposition has {opt}"})
        elif cur != base:
            v_ = {"kind": "scale_dependent_down" if c < 1 else "scale_dependent_up", "scale": c, "scaled": list(cur), "unscaled": list(base),
                  "msg": f"flow multiplied by {c} (float weights): (solved, walks) = {cur}, unscaled {base}"}
            if c < 1:
                # establish the cause: is the answer optimal among walks that repeat an SCC arc at most floor(scaled flow) times
                # (the cap kFlowDecompCycles puts on its integer repetition variables)?  brute force over the capped family
                import math
                capj = [math.floor(f[e] * c + 1e-9) if g.is_scc_arc(*e) else 1 for e in E]
                capped = [list(v) for v in vecs if all(v[j] <= capj[j] for j in range(len(E)))]
                copt, _ = O.min_decomp(capped, [f[e] * c for e in E], "float") if capped else (None, None)
                v_["optimal_within_cap"] = (cur == ((copt is not None), copt))
                v_["msg"] += f"; minimum over walks repeating each SCC arc at most floor(scaled flow) times: {copt}"
            viol.append(v_)
    if len(viol) > 4 or not case["full"]:
        return _ret(viol, nt, tags)

    # ignored arcs
    for e in E:
        rest = [x for x in E if x != e]
        if not rest:
            continue
        for treat in ("keep", "plus1"):
            c2 = dict(case, arcs=[[a[0], a[1], a[2] + (1 if (treat == "plus1" and (a[0], a[1]) == e) else 0)] for a in case["arcs"]])
            # walk family: traversals of the ignored arc are unbounded in principle; bound them by the total flow
            cap = dict(f)
            cap[e] = sum(f.values())
            vv = sorted(set(v for v, _, _ in O.walk_vectors(g, cap)))
            idx = [E.index(x) for x in rest]
            o2, _ = O.min_decomp([[v[i] for i in idx] for v in vv], [f[x] for x in rest], "int")
            for oname, oo in (("default", {}), ("mingenset", {"use_min_gen_set_lowerbound": True}), ("guessed", {"optimize_with_guessed_weights": True})):
                if treat == "plus1" and oname != "default":
                    continue
                obs = _solve(c2, drivers.build_graph(c2), {"weight_type": "int", "elements_to_ignore": [list(e)], "optimization_options": dict(oo)})
                tags["ignore"] += 1
                judge(f"MinFlowDecompCycles(int, ignore={e}/{treat}, options={oname})", obs, o2, ignored=[e], gcase=c2)
        if len(viol) > 4:
            return _ret(viol, nt, tags)

    # subset constraints: pairs of arcs (contained in the support of some walk vector <= f)
    pairs = [list(p) for p in itertools.combinations(E, 2)]
    for cset in [[p] for p in pairs[:10]] + ([[pairs[0], pairs[-1]]] if len(pairs) >= 2 else []):
        cons_sets = [set(i for i, v in enumerate(vecs) if all(v[E.index(x)] > 0 for x in c)) for c in cset]
        o3, _ = O.min_decomp(cols(E), fvec, "int", cons_sets)
        if o3 is None:
            continue
        for oname, oo in (("default", {}), ("guessed", {"optimize_with_guessed_weights": True}), ("guessed_free", {"optimize_with_guessed_weights": True, "optimize_with_given_weights_num_free_walks": 1}),
                          ("mingenset", {"use_min_gen_set_lowerbound": True})):
            obs = _solve(case, G, {"weight_type": "int", "subset_constraints": [[list(x) for x in c] for c in cset], "optimization_options": dict(oo)})
            tags["constraints"] += 1
            judge(f"MinFlowDecompCycles(int, subset_constraints={cset}, options={oname})", obs, o3, cons=cset)
        if len(viol) > 4:
            return _ret(viol, nt, tags)

    # node-weighted twin: node values induced by the witness decomposition
    if wit is not None:
        nv = {v: 0 for v in V}
        for j, w in zip(wit["support"], wit["weights"]):
            x = vecs[j]
            w = int(w)
            # node visits of a walk = sum of its in-arcs, +1 for the start node
            starts = [s for vv, s, t in vec_all if vv == x]
            s0 = starts[0]
            nv[s0] += w
            for (a, b), c in zip(E, x):
                nv[b] += w * c
        c2 = {"nodes": V, "arcs": [[a[0], a[1], None] for a in case["arcs"]], "node_w": nv}
        obs = _solve(c2, drivers.build_graph(c2), {"weight_type": "int", "flow_attr_origin": "node"})
        tags["node_mode"] += 1
        # oracle over node-visit vectors
        ncols = []
        seen = set()
        for vv, s, t in vec_all:
            d = {v: 0 for v in V}
            d[s] += 1
            for (a, b), c in zip(E, vv):
                d[b] += c
            col = tuple(d[v] for v in V)
            if col not in seen:
                seen.add(col)
                ncols.append(list(col))
        # node walks may traverse arcs more often than the arc flow allowed above; widen the family
        cap2 = {e: max(nv.values()) for e in E}
        if len(E) <= 5:
            for vv, s, t in O.walk_vectors(g, cap2):
                d = {v: 0 for v in V}
                d[s] += 1
                for (a, b), c in zip(E, vv):
                    d[b] += c
                if all(d[v] <= nv[v] for v in V):
                    col = tuple(d[v] for v in V)
                    if col not in seen:
                        seen.add(col)
                        ncols.append(list(col))
            o4, _ = O.min_decomp(ncols, [nv[v] for v in V], "int")
            judge("MinFlowDecompCycles(int, node mode)", obs, o4, gcase=c2, origin="node")
    return _ret(viol, nt, tags)


def _ret(viol, nt, tags):
    seen = collections.Counter()
    out = []
    for v in viol:
        seen[v["kind"]] += 1
        if seen[v["kind"]] <= 2:
            out.append(v)
    return {"v": out, "nt": nt, "tags": dict(tags), "out": "viol:" + ",".join(sorted(seen)) if viol else "ok"}
