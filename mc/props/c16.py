"""C16 - MinErrorFlow returns a closest non-negative flow on the same graph."""
import collections
import itertools

from .. import world, drivers, common
from .. import oracles as O

SPEC = {
    "id": "C16",
    "level": "exploration",
    "design_ref": "DESIGN.md section 5, C16",
    "rule": ("cases = (shape of W-DAG and W-DIG/W-NAMED) x (every weight vector in the alphabet); inside: weight_type x {plain, each single ignored arc, "
             "error_scaling 0.5/0 on each arc, additional start / end at each inner node, sparsity_lambda in {0.5, 2} (DAG), epsilon in {0, 0.25, 1}, every node-value vector over {0,1,3} on the shapes with |V|+|E| <= 6 (thorough 7), with and without epsilon (node mode)}; "
             "oracle: brute force over all integer flows in {0..F+1}^E that satisfy conservation at every node with both in- and out-arcs (declared starts/ends exempt) - "
             "exact for integral data for both weight types (network matrix); non-trivial = distinct (shape, weights, variant) whose optimum error is > 0 and was matched"),
    "assumptions": ["integral data => an integral optimal flow exists also for float weights (totally unimodular constraint matrix), so the integer brute force is the float optimum too",
                    "corrected values need not exceed max f + 1"],
}


def bounds(tier):
    if tier == "quick":
        return {"shapes": "W-DAG / W-DIG(n<=4) with <=4 arcs, named shapes <=5 arcs", "weights": "{0,1,3}^E"}
    return {"shapes": "W-DAG(n<=5) / W-DIG(n<=4) with <=5 arcs, named shapes <=6 arcs", "weights": "{0,1,2,3}^E (|E|<=4), {0,1,3}^E"}


def cases(tier, seed):
    q = tier == "quick"
    amax = 4 if q else 5
    shapes = [("dag", s) for s in world.dag_shapes(4 if q else 5) if len(s[1]) <= amax]
    shapes += [("dig", s) for s in world.dig_shapes(4, amax) if not world.is_acyclic(*s)]
    shapes += [("dig", s) for s in world.named_shapes() if len(s[1]) <= (5 if q else 6)]
    for idx, (fam, shp) in enumerate(shapes):
        names, arcs = world.present(shp, seed, idx)
        alpha = (0, 1, 3) if (q or len(arcs) > 4) else (0, 1, 2, 3)
        vecs = list(itertools.product(alpha, repeat=len(arcs)))
        for i, fv in enumerate(vecs):
            if max(fv) == 0:
                continue
            yield {"fam": fam, "nodes": names, "arcs": [[u, v, w] for (u, v), w in zip(arcs, fv)], "full": i % 4 == 1}
        if len(names) + len(arcs) <= (6 if q else 7):
            for first in (0, 1, 3):
                yield {"part": "node", "fam": fam, "nodes": names, "arcs": [[u, v, None] for (u, v) in arcs], "first": first}


def closest_flow(V, E, f, scale, ignored, starts, ends, lam=0.0, src_arcs=None, F=None):
    """min sum_e scale_e |f_e - x_e| (+ lam * flow leaving the sources/starts) over x >= 0 with conservation at every node
    that has both in- and out-arcs; a declared start may emit (out >= in), a declared end may absorb (in >= out).
    Exact: the problem is an LP (min-cost flow with one-breakpoint convex costs); an optimum is attained at a vertex, where every
    arc is either at 0, at its breakpoint f_e, or basic (determined by the tight conservation equations). All 3^|E| x 2^|half|
    patterns are enumerated and solved with exact Fractions."""
    from fractions import Fraction
    n = len(E)
    indeg = {v: [] for v in V}
    outdeg = {v: [] for v in V}
    for i, (u, v) in enumerate(E):
        outdeg[u].append(i)
        indeg[v].append(i)
    both = [v for v in V if indeg[v] and outdeg[v]]
    inner = [v for v in both if v not in starts and v not in ends]
    half = [v for v in both if (v in starts) != (v in ends)]
    best = None
    bx = None
    sc = [Fraction(s).limit_denominator(1000) for s in scale]
    lamf = Fraction(lam).limit_denominator(1000)
    for pattern in itertools.product((0, 1, 2), repeat=n):  # 0: x=0, 1: x=f, 2: basic
        free = [i for i in range(n) if pattern[i] == 2]
        fixed = {i: (Fraction(0) if pattern[i] == 0 else Fraction(f[i])) for i in range(n) if pattern[i] != 2}
        for tight in itertools.product((True, False), repeat=len(half)):
            eq_nodes = inner + [v for v, t in zip(half, tight) if t]
            if len(eq_nodes) < len(free):
                continue
            rows = []
            for v in eq_nodes:
                row = [Fraction(0)] * len(free)
                rhs = Fraction(0)
                for i in indeg[v]:
                    if i in fixed:
                        rhs -= fixed[i]
                    else:
                        row[free.index(i)] += 1
                for i in outdeg[v]:
                    if i in fixed:
                        rhs += fixed[i]
                    else:
                        row[free.index(i)] -= 1
                rows.append(row + [rhs])
            # Gaussian elimination, need a unique solution
            m = len(rows)
            k = len(free)
            r = 0
            ok = True
            for c in range(k):
                p = None
                for rr in range(r, m):
                    if rows[rr][c] != 0:
                        p = rr
                        break
                if p is None:
                    ok = False
                    break
                rows[r], rows[p] = rows[p], rows[r]
                inv = rows[r][c]
                rows[r] = [x / inv for x in rows[r]]
                for rr in range(m):
                    if rr != r and rows[rr][c] != 0:
                        fct = rows[rr][c]
                        rows[rr] = [x - fct * y for x, y in zip(rows[rr], rows[r])]
                r += 1
            if not ok or any(rows[rr][k] != 0 for rr in range(r, m)):
                continue
            x = [None] * n
            for i, val in fixed.items():
                x[i] = val
            for j, i in enumerate(free):
                x[i] = rows[j][k]
            if any(val < 0 for val in x):
                continue
            good = True
            for v in half:
                i_ = sum(x[i] for i in indeg[v])
                o_ = sum(x[i] for i in outdeg[v])
                if v in starts and o_ < i_:
                    good = False
                if v in ends and i_ < o_:
                    good = False
            if not good:
                continue
            c = sum(sc[i] * abs(f[i] - x[i]) for i in range(n) if i not in ignored)
            if lam:
                c += lamf * sum(max(0, sum(x[i] for i in outdeg[v]) - sum(x[i] for i in indeg[v])) for v in V if (not indeg[v]) or v in starts)
            if best is None or c < best:
                best = c
                bx = [str(val) for val in x]
    return (float(best) if best is not None else None), bx


def run(case):
    import flowpaths as fp
    if case.get("part") == "node":
        return _run_node(case)
    viol = []
    nt = []
    tags = collections.Counter()
    V = case["nodes"]
    E = [(a[0], a[1]) for a in case["arcs"]]
    fl = [a[2] for a in case["arcs"]]
    key = world.shape_key((len(V), tuple(E))) + "|" + ",".join(map(str, fl))
    G = drivers.build_graph(case)
    is_dag = case["fam"] == "dag"
    inner = [v for v in V if any(a[1] == v for a in E) and any(a[0] == v for a in E)]

    def one(variant, kw, wt="int", ignored=(), scaling=None, starts=(), ends=(), lam=0.0, eps=None):
        kw = dict(kw)
        kw["weight_type"] = wt
        ctx = f"MinErrorFlow[{case['fam']}]({wt}, {variant}={ {k: v for k, v in kw.items() if k != 'weight_type'} })"
        tags[variant] += 1
        Gc = drivers.build_graph(case)
        if variant == "numpy":
            # the same weights as numpy scalars (what one gets from numpy / pandas data)
            import numpy as np
            for _, _, d_ in Gc.edges(data=True):
                if "flow" in d_:
                    d_["flow"] = np.int64(d_["flow"])
        try:
            from .. import faults
            with faults.ValueNoise(0.0 if not variant.startswith("noise") else (-5e-10 if variant.endswith("-") else 5e-10)):
                m = fp.MinErrorFlow(Gc, flow_attr="flow", solver_options={"threads": 1}, **drivers.decode_kw(kw))
                r = m.solve()
                solved = m.is_solved()
                sol = m.get_solution() if solved else None
        except Exception as e:
            viol.append({"kind": "mef_exception", "msg": f"{ctx} raised {common.exc_str(e)}"})
            return
        if not solved or not r:
            # trusted-base guard (see drivers.observe): retry once with HiGHS presolve off
            try:
                m = fp.MinErrorFlow(drivers.build_graph(case), flow_attr="flow", solver_options={"threads": 1, "presolve": "off"}, **drivers.decode_kw(kw))
                r = m.solve()
                solved = m.is_solved()
                sol = m.get_solution() if solved else None
            except Exception:
                solved = False
            if solved:
                tags["highs_presolve_rescue"] += 1
            else:
                viol.append({"kind": "mef_unsolved", "msg": f"{ctx}: not solved (a closest flow always exists)"})
                return
        H = sol["graph"]
        if set(H.nodes()) != set(V) or set(H.edges()) != set(E):
            viol.append({"kind": "mef_graph_changed", "msg": f"{ctx}: corrected graph has nodes {sorted(H.nodes())} arcs {sorted(H.edges())}"})
            return
        x = []
        for (u, v) in E:
            val = H[u][v].get("flow")
            if val is None or val < 0:  # exact: the library's own decompositions reject a corrected graph with a value of -1e-14
                viol.append({"kind": "mef_negative_or_missing", "msg": f"{ctx}: corrected value on {(u, v)} is {val}"})
                return
            if wt == "int" and not isinstance(val, int):
                viol.append({"kind": "mef_wrong_type", "msg": f"{ctx}: corrected value {val!r} is not an int"})
                return
            x.append(val)
        ign_idx = {E.index(tuple(e)) for e in ignored} | {i for i, e in enumerate(E) if scaling and scaling.get(e, 1) == 0}
        sc = [(scaling or {}).get(e, 1) for e in E]
        # conservation
        for v in inner:
            if v in starts or v in ends:
                continue
            i_ = sum(x[i] for i, e in enumerate(E) if e[1] == v)
            o_ = sum(x[i] for i, e in enumerate(E) if e[0] == v)
            if abs(i_ - o_) > 1e-6:
                viol.append({"kind": "mef_not_conserving", "msg": f"{ctx}: node {v} has inflow {i_} and outflow {o_} in the corrected graph", "corrected": x})
                return
        rec_err = sum(abs(fl[i] - x[i]) for i in range(len(E)) if i not in ign_idx)
        rec_obj = sum(sc[i] * abs(fl[i] - x[i]) for i in range(len(E)) if i not in ign_idx)
        if abs(sol["error"] - rec_err) > 1e-6 * (1 + rec_err):
            viol.append({"kind": "mef_error_mismatch", "msg": f"{ctx}: reported error {sol['error']} but the recomputed total absolute change on non-ignored arcs is {rec_err}", "corrected": x})
        best, bx = closest_flow(V, E, fl, sc, ign_idx, set(starts), set(ends), lam=lam)
        if lam:
            src_out = sum(max(0, sum(x[i] for i, e in enumerate(E) if e[0] == v) - sum(x[i] for i, e in enumerate(E) if e[1] == v)) for v in V
                          if (not any(e[1] == v for e in E)) or v in starts)
            rec_obj_l = rec_obj + lam * src_out
            if abs(sol["objective_value"] - rec_obj_l) > 1e-6 * (1 + rec_obj_l):
                viol.append({"kind": "mef_objective_mismatch", "msg": f"{ctx}: objective_value {sol['objective_value']} but recomputed scaled error + lambda*source outflow = {rec_obj_l}"})
            cmp_val = rec_obj_l
        else:
            cmp_val = rec_obj
        limit = best * (1 + (eps or 0))
        if cmp_val > limit + 1e-6 * (1 + limit):
            viol.append({"kind": "mef_not_closest", "msg": f"{ctx}: total (scaled) change {cmp_val} but flow {list(bx)} changes only {best}" + (f" (allowed factor 1+{eps})" if eps else ""), "corrected": x,
                         "beyond_declared_exempt": bool(starts or ends) and not is_dag})
        elif cmp_val < best - 1e-6 * (1 + best):
            viol.append({"kind": "oracle_beaten", "msg": f"{ctx}: change {cmp_val} smaller than brute-force optimum {best}", "corrected": x})
        elif best > 0:
            nt.append(f"{key}|{ctx}")

    for wt in ("int", "float"):
        one("plain", {}, wt)
    one("noise-", {}, "int")
    one("noise+", {}, "int")
    one("noise-", {}, "float")   # a variable at its bound 0 read back as -5e-10: the corrected value must still be non-negative
    one("noise+", {}, "float")
    one("numpy", {}, "int")
    if not case["full"] or len(viol) > 3:
        return _ret(viol, nt, tags)
    for e in E:
        one("ignore", {"elements_to_ignore": [list(e)]}, "int", ignored=[e])
        one("scale", {"error_scaling": [[list(e), 0.5]]}, "float", scaling={e: 0.5})
        one("scale0", {"error_scaling": [[list(e), 0]]}, "int", scaling={e: 0})
        if len(viol) > 3:
            return _ret(viol, nt, tags)
    for v in inner:
        one("add_start", {"additional_starts": [v]}, "int", starts=[v])
        one("add_end", {"additional_ends": [v]}, "float", ends=[v])
        one("add_start_and_end", {"additional_starts": [v], "additional_ends": [v]}, "int", starts=[v], ends=[v])
    for v, w in itertools.permutations(inner, 2):
        one("add_start_end_pair", {"additional_starts": [v], "additional_ends": [w]}, "int", starts=[v], ends=[w])
    if is_dag:
        for lam in (0.5, 2):
            one("lambda", {"sparsity_lambda": lam}, "int", lam=lam)
    for eps in (0, 0.25, 1):
        one("epsilon", {"few_flow_values_epsilon": eps}, "int", eps=eps)
    return _ret(viol, nt, tags)


def _node_mode(V, E, variants, key, viol, nt, tags):
    import flowpaths as fp
    VV = [v + "|i" for v in V] + [v + "|o" for v in V]
    EE = [(v + "|i", v + "|o") for v in V] + [(u + "|o", v + "|i") for (u, v) in E]
    free = set(range(len(V), len(EE)))
    from .. import runner
    for vname, nwv in variants:
        runner.kick()
        c2 = {"nodes": V, "arcs": [[u, v, None] for (u, v) in E], "node_w": nwv}
        ff = [nwv[v] for v in V] + [0] * len(E)
        best, bx = closest_flow(VV, EE, ff, [1] * len(EE), free, set(), set(), F=max(ff) + 1)
        for eps in (None, 0.5):
            ctx = f"node mode ({vname}: node values {nwv}, epsilon={eps})"
            try:
                kwn = {} if eps is None else {"few_flow_values_epsilon": eps}
                m = fp.MinErrorFlow(drivers.build_graph(c2), flow_attr="flow", flow_attr_origin="node", weight_type=int, solver_options={"threads": 1}, **kwn)
                m.solve()
                if not m.is_solved():
                    # trusted-base guard (see drivers.observe): retry once with HiGHS presolve off
                    m = fp.MinErrorFlow(drivers.build_graph(c2), flow_attr="flow", flow_attr_origin="node", weight_type=int, solver_options={"threads": 1, "presolve": "off"}, **kwn)
                    m.solve()
                    if m.is_solved():
                        tags["highs_presolve_rescue"] += 1
                if not m.is_solved():
                    viol.append({"kind": "mef_unsolved", "msg": f"{ctx}: not solved"})
                    continue
                sol = m.get_solution()
                tags["node_mode"] += 1
                H = sol["graph"]
                if set(H.nodes()) != set(V) or set(H.edges()) != set(E):
                    viol.append({"kind": "mef_graph_changed", "msg": f"{ctx}: corrected graph has nodes {sorted(H.nodes())} arcs {sorted(H.edges())}"})
                    continue
                hv = {v: H.nodes[v].get("flow", 0) for v in V}
                rec = sum(abs(nwv[v] - hv[v]) for v in V)
                # the corrected node values must be realisable as a flow: their own closest flow is at distance 0
                back, _ = closest_flow(VV, EE, [hv[v] for v in V] + [0] * len(E), [1] * len(EE), free, set(), set(), F=max(list(hv.values()) + [1]) + 1)
                if any(x < 0 for x in hv.values()) or abs(back) > 1e-6:
                    viol.append({"kind": "mef_not_conserving", "msg": f"{ctx}: corrected node values {hv} are not the node throughputs of any flow (distance {back})"})
                elif abs(sol["error"] - rec) > 1e-6:
                    viol.append({"kind": "mef_error_mismatch", "msg": f"{ctx}: reported error {sol['error']} but the node values changed by {rec} in total ({hv})"})
                elif (eps is None and abs(rec - best) > 1e-6) or (eps is not None and (rec < best - 1e-6 or rec > (1 + eps) * best + 1e-6)):
                    viol.append({"kind": "mef_node_mode_mismatch", "msg": f"{ctx}: corrected node values change {rec} (reported {sol['error']}), explicit expansion optimum {best}"})
                elif best > 0:
                    nt.append(f"{key}|node|{vname}|{eps}")
            except Exception as e:
                viol.append({"kind": "mef_exception", "msg": f"{ctx} raised {common.exc_str(e)}"})


def _run_node(case):
    """node-weighted instances: EVERY node-value vector over {0,1,3} on the shape (first node's value fixed by the case), with and without epsilon"""
    viol, nt, tags = [], [], collections.Counter()
    V = case["nodes"]
    E = [(a[0], a[1]) for a in case["arcs"]]
    key = world.shape_key((len(V), tuple(E)))
    variants = []
    for rest in itertools.product((0, 1, 3), repeat=len(V) - 1):
        vec = (case["first"],) + rest
        if max(vec) == 0:
            continue
        variants.append((",".join(map(str, vec)), dict(zip(V, vec))))
    _node_mode(V, E, variants, key, viol, nt, tags)
    return _ret(viol, nt, tags)


def _ret(viol, nt, tags):
    seen = collections.Counter()
    out = []
    for v in viol:
        seen[v["kind"]] += 1
        if seen[v["kind"]] <= 2:
            out.append(v)
    return {"v": out, "nt": nt, "tags": dict(tags), "out": "viol:" + ",".join(sorted(seen)) if viol else "ok"}
