"""C03 - MinFlowDecomp (DAG) always finds a decomposition and it has the fewest paths.

One case = (DAG shape, positive conserving integer flow); inside the case every variant is solved by the real
MinFlowDecomp: weight types x lower-bound/greedy/guessed-weights options, every single ignored arc (value kept /
perturbed / attribute removed), every sub-path constraint, node-weighted twins (all nodes weighted / one node
without the attribute / one node ignored).  Oracle: brute-force minimum over all source-sink paths."""
import collections
import itertools

from .. import world, drivers, preds, fdworld
from .. import oracles as O

SPEC = {
    "id": "C03",
    "level": "exploration",
    "design_ref": "DESIGN.md section 5, C03",
    "rule": ("cases = (shape of W-DAG) x (every positive flow that is a superposition of <=R source-sink paths with weights 1..W); inside: "
             "weight_type in {int,float} x option sets {default, greedy off, safe paths as subpath constraints (greedy off), min-gen-set bound (+partition constraints), guessed weights, "
             "lowerbound_k=1, subgraph scanning with the window shrunk to 3 and 2 nodes (quick: every third flow of the 5-node shapes)}; per shape the window helper on every arc insertion order x every window, every single ignored arc (3 value treatments), every "
             "contiguous 2-3 arc sub-path and non-contiguous arc pair as a constraint, node-weighted twins; non-trivial = distinct "
             "(shape, flow, variant) solved with >= 2 paths and compared with the brute-force minimum"),
    "assumptions": ["weights are non-negative; a path chosen only to satisfy a constraint may carry weight 0",
                    "float minimum: exact rational arithmetic over linearly independent path sets (Caratheodory)"],
}

OPTION_SETS = [
    ("default", {}),
    ("greedy_off", {"optimize_with_greedy": False}),
    ("safety_cons", {"optimize_with_safety_as_subpath_constraints": True, "optimize_with_greedy": False}),
    ("mingenset", {"use_min_gen_set_lowerbound": True}),
    ("mingenset_part", {"use_min_gen_set_lowerbound": True, "use_min_gen_set_lowerbound_partition_constraints": True,
                        "optimize_with_greedy": False}),
    ("guessed", {"optimize_with_guessed_weights": True, "optimize_with_greedy": False}),
    ("guessed_mgs", {"optimize_with_guessed_weights": True, "use_min_gen_set_lowerbound": True, "optimize_with_greedy": False}),
    ("lb1", {"lowerbound_k": 1, "optimize_with_greedy": False}),
]


def bounds(tier):
    if tier == "quick":
        return {"shapes": "W-DAG(n<=4) (30 shapes, weights<=3) + n=5 with <=5 arcs (85 shapes, weights<=2)", "routes": 3, "max_weight": 3, "ignored": "every single arc", "constraints": "all 2-3 arc subpaths + non-contiguous pairs"}
    return {"shapes": "W-DAG(n<=5), arcs<=7", "routes": 3, "max_weight": 3, "flows_per_shape_cap": "all for n<=4; n=5: flows from <=2 routes weights<=3",
            "ignored": "every single arc", "constraints": "all", "subgraph_scanning_window": [3, 2]}


def cases(tier, seed):
    q = tier == "quick"
    shapes = world.dag_shapes(5)
    for idx, shp in enumerate(shapes):
        n, arcs_i = shp
        if n == 5 and len(arcs_i) > (5 if q else 7):
            continue
        names, arcs = world.present(shp, seed, idx)
        g, paths = fdworld.dag_routes(names, arcs)
        pa = [O.path_arcs(p) for p in paths]
        if n <= 4:
            flows = fdworld.fd_flows(pa, arcs, 3, 3)
        elif len(arcs_i) <= 5:
            flows = fdworld.fd_flows(pa, arcs, 3, 2)
        else:
            flows = fdworld.fd_flows(pa, arcs, 2, 3)
        for fi, fv in enumerate(sorted(flows)):
            heavy = (n <= 4) or (sum(fv) % 3 == 0)
            yield {"nodes": names, "arcs": [[u, v, w] for (u, v), w in zip(arcs, fv)], "full": bool(heavy), "scan_helper": fi == 0 and len(arcs) <= 6,
                   "scan": n == 5 and ((not q) or bool(heavy))}


def _solve(case, G, kw):
    c = dict(case, cls="MinFlowDecomp", kw=kw)
    return drivers.observe(c, G)


def run(case):
    import flowpaths as fp
    viol = []
    nt = []
    tags = collections.Counter()
    V = case["nodes"]
    E = [(a[0], a[1]) for a in case["arcs"]]
    f = {(a[0], a[1]): a[2] for a in case["arcs"]}
    g = O.STGraph(V, E)
    paths = g.simple_paths()
    pa = [O.path_arcs(p) for p in paths]
    key = world.shape_key((len(V), tuple(E))) + "|" + ",".join(str(f[e]) for e in E)
    G = drivers.build_graph(case)

    def cols_for(elements_arcs):
        return [[1 if e in p else 0 for e in elements_arcs] for p in pa]

    def judge(ctx, obs, opt, wt, origin="edge", ignored=(), gcase=None, cons=None, starts=(), ends=()):
        gcase = gcase or case
        if obs["exc"]:
            viol.append({"kind": "mfd_exception", "msg": f"{ctx} raised {obs['exc']} in {obs['phase']}"})
            return
        if not obs["solved"]:
            viol.append({"kind": "mfd_unsolved", "msg": f"{ctx}: solve() did not succeed (status {drivers.status_of(obs['model'].__dict__.get('fd_model') or obs['model']) if False else 'n/a'}) although a decomposition with {opt} paths exists"})
            return
        sol = obs["sol"]
        routes = sol.get("paths")
        errs = preds.shape_errors(sol, "paths", weight_type=wt)
        if not errs:
            errs += preds.route_errors(gcase, routes, False, starts, ends)
        if not errs:
            errs += preds.explain_errors(gcase, routes, sol["weights"], origin, ignored, wt)
        if not errs and cons:
            errs += preds.constraint_errors(routes, cons, 1.0, False)
        if errs:
            viol.append({"kind": "mfd_invalid_solution", "msg": f"{ctx}: {errs[0]}", "solution": {"paths": routes, "weights": sol.get("weights")}})
            return
        if len(routes) != opt or obs["obj"] != opt:
            kind = "mfd_not_minimum" if len(routes) > opt else "oracle_beaten"
            viol.append({"kind": kind, "msg": f"{ctx}: returned {len(routes)} paths (objective {obs['obj']}), brute-force minimum is {opt}",
                         "solution": {"paths": routes, "weights": sol.get("weights")}})
            return
        if len(routes) >= 2:
            nt.append(f"{key}|{ctx}")

    # ---------------- base: option sets x weight types ----------------
    fvec = [f[e] for e in E]
    base_opt = {}
    for wt in ("int", "float"):
        base_opt[wt], _ = O.min_decomp(cols_for(E), fvec, wt)
    opts = OPTION_SETS if case["full"] else OPTION_SETS[:3]
    for oname, oo in opts:
        for wt in ("int", "float"):
            obs = _solve(case, G, {"weight_type": wt, "optimization_options": dict(oo)})
            tags[f"opt:{oname}"] += 1
            judge(f"MinFlowDecomp(weight_type={wt}, options={oname})", obs, base_opt[wt], wt)
            if obs["model"] is not None and obs["solved"]:
                st = getattr(obs["model"], "solve_statistics", {}) or {}
                if "greedy_solve_time" in st:
                    tags["route:greedy"] += 1
                else:
                    tags["route:milp"] += 1
                gm = getattr(obs["model"], "_given_weights_model", None)
                if gm is not None and getattr(obs["model"], "fd_model", None) is gm:
                    tags["route:given_weights_model_used"] += 1
    if case.get("scan_helper"):
        # the window helper behind the subgraph-scanning bound, on EVERY insertion order of the arcs (node order follows) and every window
        # [left, right) of every topological order networkx derives: it must return exactly the window's nodes, the arcs with an end in the
        # window, and the far ends of those arcs - a window that swallows more cuts real paths in pieces and over-estimates the bound
        import networkx as nx
        import flowpaths.utils.graphutils as gu
        bad = None
        for perm in itertools.permutations(range(len(E))):
            H = nx.DiGraph()
            for i in perm:
                H.add_edge(*E[i], flow=f[E[i]])
            topo = list(nx.topological_sort(H))
            for left in range(len(topo)):
                for right in range(left, len(topo)):
                    sub = gu.get_subgraph_between_topological_nodes(H, topo, left, right)
                    win = set(topo[left:right])
                    exp_e = {e for e in E if e[0] in win or e[1] in win}
                    exp_v = win | {x for e in exp_e for x in e}
                    tags["scan_windows"] += 1
                    if set(sub.edges()) != exp_e or set(sub.nodes()) != exp_v:
                        bad = (perm, topo, left, right, sorted(sub.edges()), sorted(exp_e))
                        break
                if bad:
                    break
            if bad:
                break
        if bad:
            viol.append({"kind": "scan_window_wrong", "msg": f"get_subgraph_between_topological_nodes on arcs inserted as {[E[i] for i in bad[0]]}, order {bad[1]}, window [{bad[2]},{bad[3]}): "
                                                            f"arcs {bad[4]}, expected exactly the arcs with an end in the window {bad[5]}"})
        else:
            nt.append(key + "|scan_windows")
    if case.get("scan"):
        old = (fp.MinFlowDecomp.subgraph_lowerbound_size, fp.MinFlowDecomp.subgraph_lowerbound_shift)
        for win in ((3, 2), (2, 1)):
            fp.MinFlowDecomp.subgraph_lowerbound_size, fp.MinFlowDecomp.subgraph_lowerbound_shift = win
            try:
                for wt in ("int", "float"):
                    obs = _solve(case, G, {"weight_type": wt, "optimization_options": {"use_subgraph_scanning_lowerbound": True, "optimize_with_greedy": False}})
                    tags["opt:subgraph_scanning"] += 1
                    judge(f"MinFlowDecomp(weight_type={wt}, subgraph scanning window={win})", obs, base_opt[wt], wt)
            finally:
                fp.MinFlowDecomp.subgraph_lowerbound_size, fp.MinFlowDecomp.subgraph_lowerbound_shift = old
    if len(viol) > 4 or not case["full"]:
        return _ret(viol, nt, tags)

    # ---------------- ignored arcs ----------------
    for e in E:
        rest = [x for x in E if x != e]
        if not rest:
            continue
        for treat in ("keep", "plus1", "absent"):
            arcs2 = []
            for a in case["arcs"]:
                if (a[0], a[1]) == e:
                    arcs2.append([a[0], a[1], a[2] if treat == "keep" else (a[2] + 1 if treat == "plus1" else None)])
                else:
                    arcs2.append(list(a))
            c2 = dict(case, arcs=arcs2)
            G2 = drivers.build_graph(c2)
            for wt in ("int", "float"):
                opt, _ = O.min_decomp(cols_for(rest), [f[x] for x in rest], wt)
                for oo in ({}, {"optimize_with_greedy": False}) if treat == "keep" else ({},):
                    obs = _solve(c2, G2, {"weight_type": wt, "elements_to_ignore": [list(e)], "optimization_options": dict(oo)})
                    tags["ignore"] += 1
                    judge(f"MinFlowDecomp(weight_type={wt}, ignore={e}/{treat}, options={oo})", obs, opt, wt, ignored=[e], gcase=c2)
        if len(viol) > 4:
            return _ret(viol, nt, tags)

    # ---------------- pairs of ignored arcs with distinct perturbed values ----------------
    if len(E) <= 5:
        for e1, e2 in itertools.combinations(E, 2):
            rest = [x for x in E if x not in (e1, e2)]
            if not rest:
                continue
            arcs2 = []
            for a in case["arcs"]:
                bump = 4 if (a[0], a[1]) == e1 else (9 if (a[0], a[1]) == e2 else 0)
                arcs2.append([a[0], a[1], a[2] + bump])
            c2 = dict(case, arcs=arcs2)
            G2 = drivers.build_graph(c2)
            for wt in ("int", "float"):
                opt, _ = O.min_decomp(cols_for(rest), [f[x] for x in rest], wt)
                obs = _solve(c2, G2, {"weight_type": wt, "elements_to_ignore": [list(e1), list(e2)]})
                tags["ignore_pairs"] += 1
                judge(f"MinFlowDecomp(weight_type={wt}, ignore={e1}+4,{e2}+9)", obs, opt, wt, ignored=[e1, e2], gcase=c2)
            if len(viol) > 4:
                return _ret(viol, nt, tags)

    # ---------------- subpath constraints ----------------
    contig, noncontig = fdworld.dag_constraints(paths, 3)
    all_routes = [pp for pp in pa if len(pp) >= 2]
    for cset in [[c] for c in contig + noncontig] + ([[contig[0], contig[-1]]] if len(contig) >= 2 else []) + ([[contig[0], contig[0]]] if contig else []) \
            + ([all_routes] if 2 <= len(all_routes) <= 6 else []):
        cons_sets = [set(i for i, p in enumerate(pa) if all(x in p for x in c)) for c in cset]
        for wt in ("int", "float"):
            opt, _ = O.min_decomp(cols_for(E), fvec, wt, cons_sets)
            if opt is None:
                continue
            for oo in ({}, {"optimize_with_greedy": False}):
                obs = _solve(case, G, {"weight_type": wt, "subpath_constraints": [[list(x) for x in c] for c in cset], "optimization_options": dict(oo)})
                tags["constraints"] += 1
                judge(f"MinFlowDecomp(weight_type={wt}, constraints={cset}, options={oo})", obs, opt, wt, cons=cset)
        if len(viol) > 4:
            return _ret(viol, nt, tags)

    # ---------------- node-weighted twins ----------------
    # a decomposition of the arc flow induces node values
    dec_opt, wit = O.min_decomp(cols_for(E), fvec, "int")
    if wit is not None:
        nv = {v: 0 for v in V}
        for j, w in zip(wit["support"], wit["weights"]):
            for v in paths[j]:
                nv[v] += int(w)
        ncols_all = lambda nodes: [[1 if v in p else 0 for v in nodes] for p in paths]  # noqa
        variants = [("all", dict(nv), [])]
        inner = [v for v in V if g.pred[v] != [O.S] or g.succ[v] != [O.T]]
        for v in V[:2]:
            d = dict(nv)
            d[v] = None
            variants.append((f"absent:{v}", d, []))
            variants.append((f"ignored:{v}", dict(nv), [v]))
        for vname, d, ign in variants:
            c2 = {"nodes": V, "arcs": [[a[0], a[1], None] for a in case["arcs"]], "node_w": d}
            G2 = drivers.build_graph(c2)
            nodes_in = [v for v in V if d[v] is not None and v not in ign]
            if not nodes_in:
                continue
            for wt in ("int", "float"):
                opt, _ = O.min_decomp(ncols_all(nodes_in), [d[v] for v in nodes_in], wt)
                for oo in ({}, {"optimize_with_greedy": False}):
                    obs = _solve(c2, G2, {"weight_type": wt, "flow_attr_origin": "node", "elements_to_ignore": list(ign), "optimization_options": dict(oo)})
                    tags["node_mode"] += 1
                    judge(f"MinFlowDecomp(node mode {vname}, weight_type={wt}, options={oo})", obs, opt, wt, origin="node", ignored=ign, gcase=c2)
    return _ret(viol, nt, tags)


def _ret(viol, nt, tags):
    seen = collections.Counter()
    out = []
    for v in viol:
        seen[v["kind"]] += 1
        if seen[v["kind"]] <= 2:
            out.append(v)
    return {"v": out, "nt": nt, "tags": dict(tags), "out": "viol:" + ",".join(sorted(seen)) if viol else "ok"}
