"""C06 - safe paths/sequences are truly safe, mutually incompatible, and prune soundly.

Explicit-state search in product automata (graph x pattern progress x flags) decides the statement
for the *unbounded* family of walks/covers exactly; every automaton verdict is cross-validated: a
returned witness walk is re-checked arc by arc against the graph, and a "no witness" verdict is
compared with brute-force enumeration of all walks up to a length bound."""
import collections
import itertools

from .. import world
from .. import oracles as O

SPEC = {
    "id": "C06",
    "level": "model_checking",
    "design_ref": "DESIGN.md section 5, C06",
    "rule": ("cases = (graph shape) x (part); parts: cyc_safe = maximal_safe_sequences_via_dominators for every trusted set X in "
             "{all arcs, singletons, pairs (thorough: every non-empty subset)}; cyc_fix = walks_to_fix / edges_set_to_zero / "
             "edges_set_to_one of a constructed kPathCoverCycles model for every ignore set of size <=1 (thorough <=2) and "
             "get_longest_incompatible_sequences; dag_safe = safe_paths / safe_sequences (threads 1 and 4) for X in {all, singletons, "
             "pairs, subpath constraints}; dag_fix = _get_paths_to_fix_from_safe_lists slots; flow_safe = compute_flow_decomp_safe_paths for "
             "every flow of the FD alphabet. Each sequence is judged by a product-automaton reachability search (states = (node, "
             "pattern progress, flags)). non-trivial = distinct (graph, X, non-empty sequence with >= 2 arcs) judged"),
    "assumptions": [
        "Safety lemma (DESIGN C06): S lies in some walk of every cover of X iff some x in X has every s-t walk through x containing S",
        "flow-safe oracle: P is unsafe iff the flow lies in the rational cone of the source-sink paths not containing P (exact Fraction arithmetic)",
    ],
}


def bounds(tier):
    if tier == "quick":
        return {"cyclic": "W-DIG(n<=4, arcs<=7) + W-NAMED + cyclic 5-node digraphs with <=6 arcs; X: all, singletons, pairs", "dag": "W-DAG(n<=4) all; n=5 with X=all/singletons",
                "flow": "W-DAG(n<=4, arcs<=6), flows = superpositions of <=3 paths, weights<=3; n=5, arcs<=7: weights<=2", "brute_force_walk_len": "|E|+3"}
    return {"cyclic": "W-DIG(n<=4, arcs<=8) + W-NAMED + cyclic 5-node digraphs with <=6 arcs; X: every non-empty subset for |E|<=6 else all/singletons/pairs",
            "dag": "W-DAG(n<=5); X: all, singletons, pairs, constraints", "flow": "W-DAG(n<=5, arcs<=7), <=3 paths, weights<=3",
            "brute_force_walk_len": "|E|+3"}


def hub_cycle_shapes():
    """H(i, o, L, L2): i sources into a hub x, o sinks out of it, a cycle of length L through x (L = 1: self-loop) and optionally a second
    one of length L2. The maximal safe sequence of the cycle is a CLOSED walk (first node == last node == x), the one shape of sequence
    in which the node asked 'what reaches it' was asked 'what does it reach' just before - and, for i + o > 2, it competes with the
    source / sink arcs for a slot."""
    out = []
    for i, o, L, L2 in itertools.product((1, 2), (1, 2), (1, 2, 3, 5), (0, 2)):
        arcs = []
        nxt = 1  # node 0 = hub
        for _ in range(i):
            arcs.append((nxt, 0)); nxt += 1
        for _ in range(o):
            arcs.append((0, nxt)); nxt += 1
        for ln in (L, L2):
            if not ln:
                continue
            prev = 0
            for _ in range(ln - 1):
                arcs.append((prev, nxt)); prev = nxt; nxt += 1
            arcs.append((prev, 0))
        out.append((nxt, tuple(sorted(arcs))))
    return out


def cases(tier, seed):
    quick = tier == "quick"
    cyc = world.dig_shapes(4, 7 if quick else 8) + world.named_shapes() + [x for x in world.dig_shapes(5, 6, selfloops=False) if x[0] == 5 and not world.is_acyclic(*x)]
    cyc = cyc + hub_cycle_shapes()
    seen = set()
    for idx, shp in enumerate(cyc):
        if shp in seen:
            continue
        seen.add(shp)
        names, arcs = world.present(shp, seed, idx)
        base = {"nodes": names, "arcs": [list(a) for a in arcs]}
        yield dict(base, part="cyc_safe", xmode="pairs" if quick or len(arcs) > 6 else "subsets")
        yield dict(base, part="cyc_fix", ign=1 if quick else 2)
    dags = world.dag_shapes(4 if quick else 5)
    for idx, shp in enumerate(dags):
        names, arcs = world.present(shp, seed, idx)
        base = {"nodes": names, "arcs": [list(a) for a in arcs]}
        yield dict(base, part="dag_safe", xmode="pairs")
        yield dict(base, part="dag_fix")
        if len(arcs) <= (6 if quick else 7):
            yield dict(base, part="flow_safe", routes=3, wmax=3)
    if quick:
        for idx, shp in enumerate(world.dag_shapes(5)):
            if shp[0] == 5:
                names, arcs = world.present(shp, seed, idx)
                yield {"nodes": names, "arcs": [list(a) for a in arcs], "part": "dag_safe", "xmode": "single"}
                if len(arcs) <= 7:
                    yield {"nodes": names, "arcs": [list(a) for a in arcs], "part": "flow_safe", "routes": 3, "wmax": 2}


def _nx(case, weights=None):
    import networkx as nx
    G = nx.DiGraph()
    G.add_nodes_from(case["nodes"])
    for i, (u, v) in enumerate(case["arcs"]):
        if weights is None:
            G.add_edge(u, v)
        else:
            G.add_edge(u, v, flow=weights[i])
    return G


def _xsets(E, xmode):
    out = [list(E)]
    out += [[e] for e in E]
    if xmode in ("pairs", "subsets"):
        out += [list(c) for c in itertools.combinations(E, 2)]
    if xmode == "subsets":
        for r in range(3, len(E)):
            out += [list(c) for c in itertools.combinations(E, r)]
    return out


def _validate_witness(g, walk, seq, through, mode):
    """re-check a witness walk produced by the automaton directly against the graph"""
    if not walk or walk[0][0] != O.S or walk[-1][1] != O.T:
        return False
    for (a, b), (c, d) in zip(walk[:-1], walk[1:]):
        if b != c:
            return False
    if any(w not in g.succ[v] for v, w in walk):
        return False
    if any(tuple(x) not in walk for x in through):
        return False
    contains = O.contains_contig(walk, list(seq)) if mode == "contig" else O.contains_subseq(walk, list(seq))
    return not contains


def _judge_safe(g, seq, X, mode, stats, all_walks, viol, ctx):
    """returns True if safe. Cross-validates the automaton with brute force."""
    safe = False
    wit = {}
    for x in X:
        thr = [tuple(a) for a in x] if isinstance(x, list) else [tuple(x)]
        w = O.avoiding_walk(g, seq, through=thr, mode=mode, stats=stats)
        if w is None:
            # brute-force confirmation: no walk up to the bound through x avoids seq
            for bw in all_walks:
                if all(t in bw for t in thr):
                    cont = O.contains_contig(bw, list(seq)) if mode == "contig" else O.contains_subseq(bw, list(seq))
                    if not cont:
                        raise AssertionError(f"oracle inconsistency: automaton found no avoiding walk but brute force did: {bw}")
            stats.traces += 1
            safe = True
            break
        else:
            if not _validate_witness(g, w, seq, thr, mode):
                raise AssertionError(f"oracle inconsistency: invalid witness {w} for seq {seq} through {thr}")
            stats.traces += 1
            wit[str(x)] = w
    if not safe:
        viol.append({"kind": "unsafe_sequence", "msg": f"{ctx}: sequence {seq} is not safe for X={X}: for every x in X there is a source-sink walk through x avoiding it",
                     "witness_walks": {k: [list(a) for a in v] for k, v in list(wit.items())[:4]}})
    return safe


def run(case):
    import flowpaths as fp
    part = case["part"]
    stats = O.Stats()
    viol = []
    nt = []
    tags = collections.Counter()
    E = [tuple(a) for a in case["arcs"]]
    g = O.STGraph(case["nodes"], E)
    key = world.shape_key((len(case["nodes"]), tuple(E)))

    if part == "cyc_safe":
        from flowpaths.utils import safetypathcoverscycles as spc
        G = _nx(case)
        st = fp.stDiGraph(G)
        all_walks = g.walks_upto(len(E) + 3)
        for X in _xsets(E, case["xmode"]):
            seqs = spc.maximal_safe_sequences_via_dominators(st, set(X))
            tags["X_sets"] += 1
            for sq in seqs:
                seq = [O.map_lib_arc(e, st.source, st.sink) for e in sq]
                tags["sequences"] += 1
                if any(e not in g.all_arcs for e in seq):
                    viol.append({"kind": "sequence_not_in_graph", "msg": f"sequence {seq} has arcs outside the graph"})
                    continue
                ok = _judge_safe(g, seq, X, "subseq", stats, all_walks, viol, "maximal_safe_sequences_via_dominators")
                if ok and len(seq) >= 2:
                    nt.append(f"{key}|{sorted(X)}|{seq}")
                if len(set(seq)) < len(seq):
                    tags["seq_with_repeated_arc"] += 1
            if len(viol) > 3:
                break

    elif part == "cyc_fix":
        G = _nx(case)
        ign_sets = [[]] + [[e] for e in E]
        if case["ign"] >= 2:
            ign_sets += [list(c) for c in itertools.combinations(E, 2)]
        for ign in ign_sets:
            if len(ign) >= len(E):
                continue
            st0 = fp.stDiGraph(G)
            w = st0.get_width(list(st0.source_sink_edges) + ign)
            if w <= 0:
                continue
            for k in sorted({w, w + 1}):
                m = fp.kPathCoverCycles(G, k=k, elements_to_ignore=list(ign), solver_options={"threads": 1})
                st = m.G
                wf = [[O.map_lib_arc(e, st.source, st.sink) for e in s] for s in m.walks_to_fix]
                X = [e for e in E if e not in ign]
                tags["models"] += 1
                # (i) slot sequences are safe
                for s in wf:
                    _judge_safe(g, s, X, "subseq", stats, [], viol, f"walks_to_fix(ignore={ign})")
                # (ii) pairwise incompatible
                for a, b in itertools.combinations(range(len(wf)), 2):
                    tags["slot_pairs"] += 1
                    wk = O.walk_containing_all(g, [wf[a], wf[b]], stats=stats)
                    if wk is not None:
                        stats.traces += 1
                        viol.append({"kind": "compatible_slots", "msg": f"ignore={ign} k={k}: sequences of slots {a},{b} occur together in one walk",
                                     "seq_a": wf[a], "seq_b": wf[b], "witness_walk": wk})
                    else:
                        nt.append(f"{key}|{ign}|{k}|pair{a}{b}")
                # (iii) zero fixes are sound
                for (u, v, i) in m.edges_set_to_zero:
                    tags["zero_fixes"] += 1
                    e = O.map_lib_arc((u, v), st.source, st.sink)
                    if i >= len(wf):
                        viol.append({"kind": "zero_fix_without_sequence", "msg": f"edge {(u, v)} fixed to 0 in slot {i} which has no sequence"})
                        continue
                    wk = O.walk_containing_all(g, [wf[i]], must=e, stats=stats)
                    if wk is not None:
                        stats.traces += 1
                        viol.append({"kind": "unsound_zero_fix", "msg": f"ignore={ign} k={k}: arc {e} is forbidden in slot {i} but lies on a walk containing the slot's sequence",
                                     "sequence": wf[i], "witness_walk": wk})
                    else:
                        nt.append(f"{key}|{ign}|{k}|zero{e}{i}")
                # (iv) one-fixes belong to the slot's sequence and to a non-SCC arc
                for (u, v, i) in m.edges_set_to_one:
                    tags["one_fixes"] += 1
                    e = O.map_lib_arc((u, v), st.source, st.sink)
                    if i >= len(wf) or e not in wf[i]:
                        viol.append({"kind": "one_fix_outside_sequence", "msg": f"arc {e} fixed to 1 in slot {i} but not in its sequence"})
                    elif e[0] not in (O.S,) and e[1] not in (O.T,) and g.is_scc_arc(*e):
                        viol.append({"kind": "one_fix_on_scc_arc", "msg": f"arc {e} inside an SCC fixed to exactly 1 in slot {i}"})
                if len(viol) > 3:
                    break
            if len(viol) > 3:
                break
        # direct call of get_longest_incompatible_sequences on all maximal safe sequences of X = all
        from flowpaths.utils import safetypathcoverscycles as spc
        st = fp.stDiGraph(G)
        seqs = spc.maximal_safe_sequences_via_dominators(st, set(E))
        if seqs:
            chosen = st.get_longest_incompatible_sequences(seqs)
            ch = [[O.map_lib_arc(e, st.source, st.sink) for e in s] for s in chosen]
            for a, b in itertools.combinations(range(len(ch)), 2):
                wk = O.walk_containing_all(g, [ch[a], ch[b]], stats=stats)
                tags["slot_pairs"] += 1
                if wk is not None:
                    viol.append({"kind": "compatible_slots", "msg": "get_longest_incompatible_sequences returned two sequences that occur together in one walk",
                                 "seq_a": ch[a], "seq_b": ch[b], "witness_walk": wk})

    elif part == "dag_safe":
        from flowpaths.utils import safetypathcovers as sp
        G = _nx(case)
        st = fp.stDAG(G)
        paths = [O.full_arcs(p) for p in g.simple_paths()]
        Xs = _xsets(E, case["xmode"])
        # subpath constraints as elements of X: every 2-arc contiguous subpath and every non-contiguous co-path pair
        cons = []
        for p in paths:
            inner = p[1:-1]
            for i in range(len(inner) - 1):
                c = [inner[i], inner[i + 1]]
                if c not in cons:
                    cons.append(c)
            for i in range(len(inner)):
                for j in range(i + 2, len(inner)):
                    c = [inner[i], inner[j]]
                    if c not in cons:
                        cons.append(c)
        for X in Xs:
            for fn, mode, threads in [(sp.safe_paths, "contig", 1), (sp.safe_paths, "contig", 4),
                                      (sp.safe_sequences, "subseq", 1), (sp.safe_sequences, "subseq", 4)]:
                res = fn(st, list(X), False, threads)
                if len(res) != len(X):
                    viol.append({"kind": "wrong_count", "msg": f"{fn.__name__} returned {len(res)} lists for {len(X)} arcs"})
                tags[fn.__name__] += 1
                for sq in res:
                    seq = [O.map_lib_arc(e, st.source, st.sink) for e in sq]
                    # brute force over all paths (DAG): safe iff some x has all its paths containing seq
                    cont = O.contains_contig if mode == "contig" else O.contains_subseq
                    bf = any(all(cont(p, seq) for p in paths if x in p) for x in X)
                    ok = _judge_safe(g, seq, X, mode, stats, paths, [], fn.__name__)
                    if ok != bf:
                        raise AssertionError(f"oracle inconsistency automaton={ok} brute={bf} seq={seq} X={X}")
                    if not bf:
                        viol.append({"kind": "unsafe_sequence", "msg": f"{fn.__name__}(threads={threads}) returned {seq} for X={X}, but for every x in X some source-sink path through x avoids it"})
                    elif len(seq) >= 2:
                        nt.append(f"{key}|{mode}|{sorted(X)}|{seq}")
            if len(viol) > 3:
                break
        # constraints as X elements (safe_sequences only)
        for c in cons:
            covering = [p for p in paths if all(e in p for e in c)]
            if not covering:
                continue
            for threads in (1, 4):
                res = sp.safe_sequences(st, [list(c)], False, threads)
                tags["safe_sequences_constraint"] += 1
                for sq in res:
                    seq = [O.map_lib_arc(e, st.source, st.sink) for e in sq]
                    if not all(O.contains_subseq(p, seq) for p in covering):
                        viol.append({"kind": "unsafe_sequence", "msg": f"safe_sequences for constraint {c} returned {seq}, not contained in every path covering the constraint"})
                    else:
                        nt.append(f"{key}|cons|{c}|{seq}")
                    stats.traces += 1

    elif part == "dag_fix":
        G = _nx(case)
        paths = [O.full_arcs(p) for p in g.simple_paths()]
        for flags in ({}, {"optimize_with_safe_paths": False, "optimize_with_safe_sequences": True},
                      {"optimize_with_safety_from_largest_antichain": True}):
            st0 = fp.stDAG(G)
            w = st0.get_width()
            m = fp.kPathCover(G, k=w, optimization_options=dict(flags), solver_options={"threads": 1})
            st = m.G
            slots = m._get_paths_to_fix_from_safe_lists()
            sl = [[O.map_lib_arc(e, st.source, st.sink) for e in s] for s in slots]
            tags["dag_models"] += 1
            for a, b in itertools.combinations(range(len(sl)), 2):
                tags["slot_pairs"] += 1
                both = [p for p in paths if O.contains_subseq(p, sl[a]) and O.contains_subseq(p, sl[b])]
                wk = O.walk_containing_all(g, [sl[a], sl[b]], stats=stats)
                if (wk is not None) != bool(both):
                    raise AssertionError("oracle inconsistency in dag_fix")
                stats.traces += 1
                if both:
                    viol.append({"kind": "compatible_slots", "msg": f"flags={flags}: DAG slot sequences {sl[a]} and {sl[b]} lie on one path {both[0]}"})
                else:
                    nt.append(f"{key}|{sorted(flags)}|{a}{b}")
            for s in sl:
                X = E
                cont = O.contains_contig if not flags.get("optimize_with_safe_sequences") else O.contains_subseq
                if not any(all(cont(p, s) for p in paths if x in p) for x in X):
                    viol.append({"kind": "unsafe_sequence", "msg": f"flags={flags}: slot list {s} is not safe for X=all arcs"})

    elif part == "flow_safe":
        from flowpaths.utils import safetyflowdecomp as sfd
        paths = g.simple_paths()
        parcs = [O.path_arcs(p) for p in paths]
        flows = set()
        for r in range(1, case["routes"] + 1):
            for ps in itertools.combinations(range(len(paths)), r):
                for ws in itertools.product(range(1, case["wmax"] + 1), repeat=r):
                    f = {e: 0 for e in E}
                    for pi, wgt in zip(ps, ws):
                        for e in parcs[pi]:
                            f[e] += wgt
                    if all(v > 0 for v in f.values()):
                        flows.add(tuple(f[e] for e in E))
        cols_all = [[1 if e in pa else 0 for e in E] for pa in parcs]
        for fv in sorted(flows):
            G = _nx(case, weights=list(fv))
            res = sfd.compute_flow_decomp_safe_paths(G, "flow")
            tags["flows"] += 1
            for sq in res:
                seq = [tuple(e) for e in sq]
                tags["flow_safe_paths"] += 1
                if any(e not in E for e in seq) or any(a[1] != b[0] for a, b in zip(seq[:-1], seq[1:])):
                    viol.append({"kind": "sequence_not_in_graph", "msg": f"flow-safe path {seq} is not a path of the graph"})
                    continue
                avoiding = [c for c, pa in zip(cols_all, parcs) if not O.contains_contig(pa, seq)]
                stats.states += len(avoiding)
                stats.transitions += 1
                if O.in_cone(avoiding, list(fv)):
                    k, sub, sol = O.cone_min_support(avoiding, list(fv))
                    viol.append({"kind": "unsafe_flow_path", "msg": f"flow {dict(zip(map(str, E), fv))}: path {seq} reported flow-safe but the flow decomposes into paths avoiding it",
                                 "witness_weights": [str(x) for x in sol]})
                elif len(seq) >= 2:
                    nt.append(f"{key}|flow{fv}|{seq}")
                stats.traces += 1
            if len(viol) > 3:
                break
    else:
        raise ValueError(part)

    return {"v": viol[:4], "nt": nt, "tags": dict(tags), "out": f"{part}:{'viol' if viol else 'ok'}",
            "states": stats.states, "transitions": stats.transitions, "traces": stats.traces}
