"""C05 - optimisation options never change solvability or the optimal objective."""
import collections

from .. import runner, world, drivers, preds, sweep, common

SPEC = {
    "id": "C05",
    "level": "exploration",
    "design_ref": "DESIGN.md section 5, C05",
    "rule": ("cases = (every class accepting optimization_options) x (instance, its perturbed variant for the error models, with/without a constraint, k below / at the optimum for "
             "k-models); inside: every flag assignment differing from the default in <= 1 flag (quick) / <= 2 flags (thorough), the all-off assignment, the FULL cross product of flags on the "
             "smallest shapes (thorough), and the class specific options (greedy, flow-safe paths, min-gen-set bound +- partition constraints, lowerbound_k, guessed weights, free walks); "
             "oracle: differential - (solved?, objective) must equal that of the all-optimisations-off configuration of the same input; SystemExit or any non-ValueError exception counts "
             "as 'solvability changed'. non-trivial = distinct (class, instance, assignment) compared where the reference was solved"),
    "assumptions": ["documented incompatible combinations (ValueError 'Cannot optimize with both ...') are excluded",
                    "objective = number of routes (Min*), total error (LAE), total slack (MPE), solved flag (k-FD, k-cover)"],
}


def bounds(tier):
    q = tier == "quick"
    return {"flag_deviations": 1 if q else 2, "full_cross_product": "none" if q else "shapes with <= 3 arcs (DAG) / <= 4 arcs (cyclic)",
            "constraint_sweep": ("every flow from <= 3 routes (weights <= 2) of every DAG shape with 3..%d arcs x every contiguous 2-/3-arc constraint x 3 length patterns x coverage_length 0.5, "
                                 "constraint-related flags only" % (4 if q else 5)) + ("" if q else "; the same on the 3 larger named DAGs (caterpillar, double diamond, ladder)"),
            "off_walk_graphs": "6 hand-written cyclic graphs with arcs on no source-sink walk (dead-end / source-less / isolated cycles) x ignored or not x additional end x every single flag flip",
            "instances": "W-DAG(n<=4) x 2 flows; cyclic W-DIG(n<=4, arcs<=5)+named x 2 flows" if q else "W-DAG(n<=5, arcs<=6) x 2; cyclic W-DIG(n<=4, arcs<=6)+W-NAMED x 2"}


def cases(tier, seed):
    q = tier == "quick"
    for inst in sweep.dag_instances(tier, seed):
        for cls in sweep.DAG_CLASSES:
            lvl = 1 if q else (3 if len(inst["arcs"]) <= 3 else 2)
            yield dict(inst, cls=cls, level=lvl)
    if not q:
        # thorough only: the larger named DAGs with every flow built from <= 3 routes (weights <= 2) and an exhaustive single-constraint sweep
        for inst in sweep.named_dag_instances(tier, seed, per_shape=10 ** 6, max_w=2):
            for cls in ("kMinPathError", "kLeastAbsErrors", "MinFlowDecomp", "kPathCover"):
                yield dict(inst, cls=cls, level=1)
    # every flow (<= 3 routes, weights <= 2) of every small DAG shape x every contiguous constraint under length coverage 0.5
    for inst in sweep.dag_all_flow_instances(tier, seed, 4 if q else 5):
        for cls in ("kFlowDecomp", "kMinPathError", "MinFlowDecomp"):
            yield dict(inst, cls=cls, level=1)
    # the caterpillar: constraints on the inner spine, the lengths of the 5 spine arcs swept over {1,4}^5
    for inst in sweep.spine_instances(tier, seed):
        for cls in ("kFlowDecomp", "kMinPathError", "kLeastAbsErrors", "MinFlowDecomp"):
            yield dict(inst, cls=cls, level=1)
    for name in HAND_MFD:
        yield dict(HAND_MFD[name][0], cls="MinFlowDecompCycles" if name.startswith("cyc:") else "MinFlowDecomp", level=1, hand_mfd=name)
    for name in OFFWALK:
        for cls in sweep.CYC_CLASSES:
            yield {"offwalk": name, "cls": cls, "fam": "cyc"}
    for inst in sweep.cyc_instances(tier, seed):
        for cls in sweep.CYC_CLASSES:
            lvl = 1 if q else (3 if len(inst["arcs"]) <= 4 else 2)
            yield dict(inst, cls=cls, level=lvl)


# Graphs in which some arcs lie on NO source-to-sink walk (the documented domain of the error / cover models is 'a directed graph';
# for the others such arcs can be ignored): a base route s->a->t (and a diamond) with a dead-end 2-cycle, a source-less 2-cycle,
# an isolated 2-cycle, a dead-end self-loop or a dead-end arc into a cycle attached at an inner node.
# hand-written inputs on which 'the flow leaving the sources' is NOT the sum of the route weights (a route starts on a value-less
# ignored arc / at a source node without the attribute): the generating-set lower bound must not be applied blindly
HAND_MFD = {
    "valueless_ignored_arc_from_a_source": ({"fam": "dag", "nodes": ["u", "v", "p", "r", "t1", "q", "t2", "x"],
                                             "arcs": [["u", "v", 8], ["v", "p", 3], ["p", "r", 4], ["r", "t1", 3], ["r", "q", 1], ["v", "q", 5], ["q", "t2", 6], ["x", "p", None]]},
                                            {"weight_type": "int", "elements_to_ignore": [["x", "p"]]}),
    "source_node_without_value": ({"fam": "dag", "nodes": ["s1", "s2", "x", "y", "t1"], "arcs": [["s1", "x", None], ["s1", "y", None], ["s2", "x", None], ["x", "t1", None], ["x", "y", None]],
                                   "node_w": {"s1": 14, "s2": None, "x": 7, "y": 11, "t1": 5}},
                                  {"weight_type": "int", "flow_attr_origin": "node"}),
    # a node-weighted chain of 12 nodes of which only the last carries a value: the first 20-node window of the subgraph scanning
    # contains no weighted element at all
    "chain_only_last_node_weighted": ({"fam": "dag", "nodes": [f"v{i}" for i in range(12)], "arcs": [[f"v{i}", f"v{i + 1}", None] for i in range(11)],
                                       "node_w": dict({f"v{i}": None for i in range(11)}, v11=5)},
                                      {"weight_type": "int", "flow_attr_origin": "node"}),
    # a star with float flows one of which is 0 (the generating set gets a rounding residue like 2e-16 where a 0 belongs)
    "float_star_with_zero": ({"fam": "dag", "nodes": ["s", "t0", "t1", "z"], "arcs": [["s", "t0", 0.1], ["s", "t1", 0.2], ["s", "z", 0.0]]}, {"weight_type": "float"}),
    "float_thirds": ({"fam": "dag", "nodes": ["s", "a", "b", "t"], "arcs": [["s", "a", 1.0], ["a", "t", 1.0], ["s", "b", 4.0 / 3.0], ["b", "t", 4.0 / 3.0], ["s", "t", 5.0 / 3.0]]}, {"weight_type": "float"}),
    # (cyclic class) a node-weighted 2-cycle without any natural source or sink: walks start at a and end at b
    "cyc:two_cycle_start_end": ({"fam": "cyc", "nodes": ["a", "b"], "arcs": [["a", "b", None], ["b", "a", None]], "node_w": {"a": 3, "b": 3}},
                                {"weight_type": "int", "flow_attr_origin": "node", "additional_starts": ["a"], "additional_ends": ["b"]}),
    # (cyclic class, float weights) two self-loops, one of them carrying 27 x 1397: the generating-set bound calls MinGenSet with
    # max_multiplicity = largest flow = 37719 (KNOWN FINDING MGS-MULT: its k = 2 model is falsely infeasible, the bound becomes 3)
    "cyc:selfloops_multiplicity_37719": ({"fam": "cyc", "nodes": ["s", "a", "c", "d", "t"],
                                          "arcs": [["s", "a", 2087], ["a", "c", 690], ["c", "c", 1380], ["c", "t", 690], ["a", "d", 1397], ["d", "d", 37719], ["d", "t", 1397]]},
                                         {"weight_type": "float"}),
    # three disjoint source-sink paths carrying 0.1, 0.4, 0.2 (the level sums of the partition constraints are float sums)
    "three_float_paths": ({"fam": "dag", "nodes": ["s", "a", "b", "c", "t"],
                           "arcs": [["s", "a", 0.1], ["a", "t", 0.1], ["s", "b", 0.4], ["b", "t", 0.4], ["s", "c", 0.2], ["c", "t", 0.2]]},
                          {"weight_type": "float"}),
}


OFFWALK = {
    "deadend_cycle": ([("s", "a", 5), ("a", "t", 5)], [("a", "c", 2), ("c", "d", 2), ("d", "c", 2)]),
    "sourceless_cycle": ([("s", "a", 5), ("a", "t", 5)], [("c", "a", 2), ("c", "d", 2), ("d", "c", 2)]),
    "isolated_cycle": ([("s", "a", 5), ("a", "t", 5)], [("c", "d", 2), ("d", "c", 2)]),
    "deadend_selfloop": ([("s", "a", 5), ("a", "t", 5)], [("a", "c", 2), ("c", "c", 2)]),
    "deadend_cycle_on_cycle": ([("s", "a", 5), ("a", "b", 7), ("b", "a", 2), ("b", "t", 5)], [("b", "c", 2), ("c", "d", 2), ("d", "c", 2)]),
    "both_sides": ([("s", "a", 3), ("s", "b", 2), ("a", "t", 3), ("b", "t", 2)], [("x", "y", 1), ("y", "x", 1), ("y", "a", 1), ("b", "u", 1), ("u", "u", 1)]),
}


def _offwalk(case):
    """differential for the OFFWALK graphs: every flag assignment within one flip of the default must give the result of all-off
    (an exception other than a documented ValueError is a changed result)"""
    viol, nt, tags = [], [], collections.Counter()
    cls = case["cls"]
    base, extra = OFFWALK[case["offwalk"]]
    arcs = [list(a) for a in base + extra]
    nodes = list(dict.fromkeys(x for a in arcs for x in a[:2]))
    inst = {"fam": "cyc", "nodes": nodes, "arcs": arcs}
    cover = cls in sweep.COVER
    for ign in (False, True):
        for extra_end in (False, True):
            kw0 = {} if cover else {"weight_type": "int"}
            if cls.startswith("k"):
                kw0["k"] = 2
            if ign:
                kw0["elements_to_ignore"] = [list(a[:2]) for a in extra]
            if extra_end:
                if cls == "MinFlowDecompCycles":
                    continue
                kw0["additional_ends"] = ["a"]
            assignments = sweep.flag_sets(cls, 1)
            c_ref = dict(inst, cls=cls, kw=dict(kw0, optimization_options=dict(assignments[1][1])))
            ref_obs = drivers.observe(c_ref)
            ref = ("exc", ref_obs["exc_type"]) if ref_obs["exc"] else _objective(cls, ref_obs, "walks")
            if ref_obs["exc"] and ref_obs["exc_type"] != "ValueError":
                viol.append({"kind": "reference_exception", "msg": f"{cls}({case['offwalk']}, ignored={ign}, additional end={extra_end}, all optimisations off) raised {ref_obs['exc']}"})
                continue
            for aname, fl in [assignments[0]] + assignments[2:]:
                runner.kick()
                c_cur = dict(inst, cls=cls, kw=dict(kw0, optimization_options=dict(fl)))
                obs = drivers.observe(c_cur)
                tags["runs"] += 1
                cur = ("exc", obs["exc_type"]) if obs["exc"] else _objective(cls, obs, "walks")
                ctx = f"{cls}({case['offwalk']}: arcs {arcs}, off-walk arcs ignored={ign}, additional end at a={extra_end}; options {aname})"
                if _really_differs(cls, "walks", c_ref, c_cur, ref, cur, tags):
                    viol.append({"kind": "option_raises" if obs["exc"] else "option_changes_result", "opt": aname,
                                 "msg": f"{ctx}: {cur} {obs['exc'] or ''}, with all optimisations off: {ref}"})
                    break
                nt.append(f"{cls}|{case['offwalk']}|{ign}|{extra_end}|{aname}")
    return {"v": viol[:4], "nt": nt, "tags": dict(tags), "out": "viol" if viol else "ok"}


def _hand_generic(case, inst, kw0, cls, rkey, extra):
    viol, nt, tags = [], [], collections.Counter()
    assignments = sweep.flag_sets(cls, 1)
    c_ref = dict(inst, cls=cls, kw=dict(kw0, optimization_options=dict(assignments[1][1])))
    ref_obs = drivers.observe(c_ref)
    ref = ("exc", ref_obs["exc_type"]) if ref_obs["exc"] else _objective(cls, ref_obs, rkey)
    for aname, fl in [assignments[0]] + assignments[2:] + extra:
        runner.kick()
        c_cur = dict(inst, cls=cls, kw=dict(kw0, optimization_options=dict(fl)))
        obs = drivers.observe(c_cur)
        tags["runs"] += 1
        cur = ("exc", obs["exc_type"]) if obs["exc"] else _objective(cls, obs, rkey)
        if _really_differs(cls, rkey, c_ref, c_cur, ref, cur, tags):
            kind = "option_raises" if obs["exc"] else "option_changes_result"
            lbk = getattr(obs.get("model"), "_lowerbound_k", None)
            if not obs["exc"] and ref[0] == "solved" and cur[0] == "solved" and isinstance(lbk, int) and lbk > ref[1] and cur[1] == lbk:
                # the cause is established: the search started at a 'lower bound' above the size of the decomposition the reference run exhibits
                kind = "lower_bound_above_optimum"
            viol.append({"kind": kind, "opt": aname, "lower_bound_used": lbk,
                         "msg": f"{cls}({case['hand_mfd']}: {inst.get('arcs')} {inst.get('node_w', '')} {kw0}; options {aname}): {cur} {obs['exc'] or ''}, with all optimisations off: {ref}"
                                + (f" (the search started at lower bound {lbk})" if kind == "lower_bound_above_optimum" else "")})
        else:
            nt.append(f"{case['hand_mfd']}|{aname}")
    return {"v": viol[:4], "nt": nt, "tags": dict(tags), "out": "viol" if viol else "ok"}


def _hand_mfd(case):
    viol, nt, tags = [], [], collections.Counter()
    inst, kw0 = HAND_MFD[case["hand_mfd"]]
    cls = case.get("cls", "MinFlowDecomp")
    if cls == "MinFlowDecompCycles":
        return _hand_generic(case, inst, kw0, cls, "walks",
                             [("mingenset", {"use_min_gen_set_lowerbound": True}), ("guessed", {"optimize_with_guessed_weights": True}),
                              ("guessed+free", {"optimize_with_guessed_weights": True, "optimize_with_given_weights_num_free_walks": 1}),
                              ("guessed+mgs+add", {"optimize_with_guessed_weights": True, "use_min_gen_set_lowerbound": True, "add_min_gen_set_to_given_weights": True})])
    assignments = sweep.flag_sets(cls, 1)
    extra = [("mingenset", {"use_min_gen_set_lowerbound": True}), ("mingenset+part", {"use_min_gen_set_lowerbound": True, "use_min_gen_set_lowerbound_partition_constraints": True}),
             ("guessed+mgs", {"optimize_with_guessed_weights": True, "use_min_gen_set_lowerbound": True}), ("mingenset,greedy_off", {"use_min_gen_set_lowerbound": True, "optimize_with_greedy": False}),
             ("scanning", {"use_subgraph_scanning_lowerbound": True}), ("scanning+mingenset", {"use_subgraph_scanning_lowerbound": True, "use_min_gen_set_lowerbound": True})]
    c_ref = dict(inst, cls=cls, kw=dict(kw0, optimization_options=dict(assignments[1][1])))
    ref_obs = drivers.observe(c_ref)
    ref = ("exc", ref_obs["exc_type"]) if ref_obs["exc"] else _objective(cls, ref_obs, "paths")
    for aname, fl in [assignments[0]] + assignments[2:] + extra:
        runner.kick()
        c_cur = dict(inst, cls=cls, kw=dict(kw0, optimization_options=dict(fl)))
        obs = drivers.observe(c_cur)
        tags["runs"] += 1
        cur = ("exc", obs["exc_type"]) if obs["exc"] else _objective(cls, obs, "paths")
        if obs["exc"] and obs["exc_type"] == "ValueError" and "Cannot optimize with both" in obs["exc"]:
            continue
        if _really_differs(cls, "paths", c_ref, c_cur, ref, cur, tags):
            viol.append({"kind": "option_raises" if obs["exc"] else "option_changes_result", "opt": aname,
                         "msg": f"{cls}({case['hand_mfd']}: {inst.get('arcs')} {inst.get('node_w', '')}; options {aname}): {cur} {obs['exc'] or ''}, with all optimisations off: {ref}"})
        else:
            nt.append(f"{case['hand_mfd']}|{aname}")
    return {"v": viol[:4], "nt": nt, "tags": dict(tags), "out": "viol" if viol else "ok"}


def _really_differs(cls, rkey, c_ref, c_cur, ref, cur, tags):
    runner.kick()
    """trusted-base guard: HiGHS presolve has declared feasible k-models infeasible / returned sub-optimal points on the pinned highspy
    (a 6-node node-weighted two-cycle instance: kFlowDecompCycles(k=2) 'kInfeasible' with presolve, optimal without). Two answers that
    differ are therefore both asked again with the documented solver option presolve=off; only a difference that persists is reported."""
    if cur == ref:
        return False
    if ref[0] == "exc" or cur[0] == "exc":
        return True
    r2 = _objective(cls, drivers.objective_without_presolve(c_ref), rkey)
    c2 = _objective(cls, drivers.objective_without_presolve(c_cur), rkey)
    if r2 == c2:
        tags["highs_presolve_wrong_verdict"] += 1
        return False
    return True


def _objective(cls, obs, rkey):
    if not obs["solved"]:
        return ("unsolved",)
    if cls.startswith("Min"):
        return ("solved", len(obs["sol"][rkey]))
    if "LeastAbsErrors" in cls or "MinPathError" in cls:
        return ("solved", round(float(obs["obj"]), 5))
    return ("solved",)


def run(case):
    viol = []
    nt = []
    tags = collections.Counter()
    cls = case["cls"]
    if case.get("offwalk"):
        return _offwalk(case)
    if case.get("hand_mfd"):
        return _hand_mfd(case)
    cyc = sweep.is_cyc(cls)
    rkey = "walks" if cyc else "paths"
    ckey = "subset_constraints" if cyc else "subpath_constraints"
    inst = {k: case[k] for k in ("fam", "nodes", "arcs")}
    E = [(a[0], a[1]) for a in inst["arcs"]]
    key = world.shape_key((len(inst["nodes"]), tuple(E))) + "|" + ",".join(str(a[2]) for a in inst["arcs"]) + "|" + cls
    is_k = cls.startswith("k")
    cover = cls in sweep.COVER
    width = sweep.width_of(inst)
    # inputs: (name, instance, base kw)
    inputs = []
    base_kw = {} if cover else {"weight_type": "int"}
    if is_k:
        if cls in ("kFlowDecomp", "kFlowDecompCycles"):
            sib = "MinFlowDecompCycles" if cyc else "MinFlowDecomp"
            o = drivers.observe(dict(inst, cls=sib, kw={"weight_type": "int", "optimization_options": {f: False for f in (sweep.CYC_FLAGS if cyc else sweep.DAG_FLAGS + sweep.FD_DAG_FLAGS)}}))
            if not o["solved"]:
                return {"v": [], "nt": None, "tags": {"no_reference": 1}, "out": "skip"}
            kopt = len(o["sol"][rkey])
        elif "LeastAbsErrors" in cls:
            kopt = max(1, min(2, width))
        else:
            kopt = width
        for k in sorted({max(1, kopt - 1), kopt, kopt + 1}):
            inputs.append((f"k={k}", inst, dict(base_kw, k=k)))
        if cls in sweep.ERRM:
            inputs.append((f"perturbed,k={kopt}", sweep.perturbed(inst), dict(base_kw, k=kopt)))
            inputs.append((f"perturbed,float,k={kopt}", sweep.perturbed(inst), dict(base_kw, k=kopt, weight_type="float")))
    else:
        inputs.append(("plain", inst, dict(base_kw)))
        if not cover:
            inputs.append(("float", inst, dict(base_kw, weight_type="float")))
        if cls in ("MinFlowDecomp", "MinFlowDecompCycles"):
            # node-weighted twin, also with one source node lacking the attribute, and a value-less ignored arc out of a new source:
            # inputs on which 'total flow leaving the sources' is not the sum of the route weights (lower-bound options must cope)
            twin = sweep.node_twin(inst)
            inputs.append(("node", twin, dict(base_kw, flow_attr_origin="node")))
            if cyc:
                # all flows below 1 (float weights), and node mode with an additional start
                inputs.append(("float,scaled_0.1", dict(inst, arcs=[[a[0], a[1], a[2] * 0.1] for a in inst["arcs"]]), dict(base_kw, weight_type="float")))
                inn_ = sweep.inner_nodes(inst)
                if inn_:
                    inputs.append(("node,additional_start", twin, dict(base_kw, flow_attr_origin="node", additional_starts=[inn_[0]])))
            srcs = [x for x in inst["nodes"] if not any(a[1] == x for a in inst["arcs"])]
            if len(srcs) >= 1 and len(inst["nodes"]) >= 3:
                nw = dict(twin["node_w"])
                nw[srcs[0]] = None
                inputs.append(("node,source_without_value", dict(twin, node_w=nw), dict(base_kw, flow_attr_origin="node")))
            inner_ = sweep.inner_nodes(inst)
            if inner_ and not cyc:
                extra_arcs = [list(a) for a in inst["arcs"]] + [["zz", inner_[0], None]]
                bumped = [[a[0], a[1], a[2]] for a in extra_arcs]
                # the route zz -> inner -> ... -> sink carries weight 2: add it along a shortest way to a sink
                cur, seen_ = inner_[0], set()
                while cur not in seen_:
                    seen_.add(cur)
                    nxt = [a for a in bumped if a[0] == cur and a[2] is not None]
                    if not nxt:
                        break
                    nxt[0][2] += 2
                    cur = nxt[0][1]
                inputs.append(("valueless_ignored_source_arc", dict(inst, nodes=list(inst["nodes"]) + ["zz"], arcs=bumped),
                               dict(base_kw, elements_to_ignore=[["zz", inner_[0]]])))
    con = sweep.a_constraint(inst)
    if con:
        nm, ii, kw0 = inputs[-1] if not is_k else inputs[1 if len(inputs) > 1 else 0]
        inputs.append((nm + ",constraint", ii, dict(kw0, **{ckey: [con]})))
        cc = "subset_constraints_coverage" if cyc else "subpath_constraints_coverage"
        inputs.append((nm + ",constraint,coverage=0.5", ii, dict(kw0, **{ckey: [con], cc: 0.5})))
        if not cyc:
            lengths = {f"{a[0]}|{a[1]}": 1 + 2 * (i % 2) for i, a in enumerate(ii["arcs"])}
            # a length attribute WITHOUT a length coverage: the constraint is still counted in arcs
            inputs.append((nm + ",constraint,length_attr_only", dict(ii, lengths={k_: 3 for k_ in lengths}), dict(kw0, **{ckey: [con], "length_attr": "length"})))
            inputs.append((nm + ",constraint,length_attr_only,mixed", dict(ii, lengths=lengths), dict(kw0, **{ckey: [con], "length_attr": "length"})))
            # a long constraint (3 arcs if one exists) under length coverage < 1
            g_ = sweep.O.STGraph(ii["nodes"], E)
            long_c = None
            for p_ in g_.simple_paths():
                pa_ = sweep.O.path_arcs(p_)
                if len(pa_) >= 3:
                    long_c = [list(x) for x in pa_[:3]]
                    break
            for c_ in ([con] + ([long_c] if long_c else [])):
                for cl_ in (0.5, 0.34):
                    inputs.append((nm + f",constraint{len(c_)},coverage_length={cl_}", dict(ii, lengths=lengths),
                                   dict(kw0, **{ckey: [c_], "subpath_constraints_coverage_length": cl_, "length_attr": "length"})))
    if cls in ("kFlowDecomp", "MinFlowDecomp") and not case.get("named"):
        # all flows zero (k zero-weight paths are a decomposition)
        zero_inst = dict(inst, arcs=[[a[0], a[1], 0] for a in inst["arcs"]])
        inputs.append(("all_zero_flows", zero_inst, dict(base_kw, **({"k": max(1, width)} if is_k else {}))))
    if cls == "kFlowDecomp" and not case.get("named"):
        # given weights that cannot explain the flow (every entry exceeds the largest flow value): infeasible whatever the options
        big = max(a[2] for a in inst["arcs"]) + 3
        inputs.append(("weights_superset_unusable", inst, dict(base_kw, k=kopt, solution_weights_superset=[big] * max(2, kopt))))
    if len(E) > 1 and sweep.width_of(inst, ignored=[E[0]]):
        nm, ii, kw0 = inputs[0] if not is_k else inputs[min(1, len(inputs) - 1)]
        inputs.append((nm + ",ignore", ii, dict(kw0, elements_to_ignore=[list(E[0])])))

    if case.get("spine"):
        import itertools
        sp = case["spine"]
        nm, ii, kw0 = inputs[1] if (is_k and len(inputs) > 1) else inputs[0]
        if "LeastAbsErrors" in cls:
            kw0 = dict(kw0, k=3)
        inputs = []
        for pat in itertools.product((1, 4), repeat=5):
            lengths = {f"{a[0]}|{a[1]}": 1 for a in inst["arcs"]}
            for e, l_ in zip(sp, pat):
                lengths[f"{e[0]}|{e[1]}"] = l_
            for c_ in (sp[1:4], sp[1:3]):
                inputs.append((nm + f",spine_lengths={pat},constraint={len(c_)} arcs,coverage_length=0.5", dict(ii, lengths=lengths),
                               dict(kw0, **{ckey: [c_], "subpath_constraints_coverage_length": 0.5, "length_attr": "length"})))
    elif case.get("named") and not cyc:
        # exhaustive constraint sweep on the larger named DAGs: every contiguous sub-path (>= 2 arcs) as the single constraint,
        # length coverage 0.5, three length patterns (constraints whose pieces lie on different solution paths live here)
        g_ = sweep.O.STGraph(inst["nodes"], E)
        subs = []
        for p_ in g_.simple_paths():
            pa_ = sweep.O.path_arcs(p_)
            for L_ in (2, 3):
                for i_ in range(len(pa_) - L_ + 1):
                    c_ = [list(x) for x in pa_[i_:i_ + L_]]
                    if c_ not in subs:
                        subs.append(c_)
        nm, ii, kw0 = inputs[1] if (is_k and len(inputs) > 1) else inputs[0]
        for li, lfun in enumerate((lambda i: 1, lambda i: 1 + 2 * (i % 2), lambda i: 1 + (i * 3) % 7)):
            lengths = {f"{a[0]}|{a[1]}": lfun(i) for i, a in enumerate(inst["arcs"])}
            for c_ in subs:
                inputs.append((nm + f",L{li},constraint={c_},coverage_length=0.5", dict(ii, lengths=lengths),
                               dict(kw0, **{ckey: [c_], "subpath_constraints_coverage_length": 0.5, "length_attr": "length"})))

    assignments = sweep.flag_sets(cls, case["level"])
    extra = []
    if cls == "MinFlowDecomp":
        extra = [("mingenset", {"use_min_gen_set_lowerbound": True}), ("mingenset+part", {"use_min_gen_set_lowerbound": True, "use_min_gen_set_lowerbound_partition_constraints": True}),
                 ("guessed", {"optimize_with_guessed_weights": True}), ("guessed+mgs", {"optimize_with_guessed_weights": True, "use_min_gen_set_lowerbound": True}),
                 ("lowerbound_k=1", {"lowerbound_k": 1}), ("guessed,no_subgraph_weights", {"optimize_with_guessed_weights": True, "use_subgraph_scanning_weights_in_given_weights_optimization": False}),
                 ("mingenset,no_sums_of_two", {"use_min_gen_set_lowerbound": True, "min_gen_set_remove_sums_of_two": False})]
    elif cls == "MinFlowDecompCycles":
        extra = [("mingenset", {"use_min_gen_set_lowerbound": True}), ("guessed", {"optimize_with_guessed_weights": True}),
                 ("guessed+free", {"optimize_with_guessed_weights": True, "optimize_with_given_weights_num_free_walks": 1}),
                 ("guessed+mgs+add", {"optimize_with_guessed_weights": True, "use_min_gen_set_lowerbound": True, "add_min_gen_set_to_given_weights": True}),
                 ("lowerbound_k=1", {"lowerbound_k": 1})]
    if case.get("allflows"):
        inputs = [i_ for i_ in inputs if "coverage_length" in i_[0]]
    if case.get("named"):
        keep = [a for a in assignments if a[0] in ("default", "all_off") or "safety_as" in a[0] or "subpath_constraints_as_safe" in a[0]]
        assignments = keep
        extra = []
    all_off = assignments[1][1]
    from .. import runner
    for iname, ii, kw0 in inputs:
        runner.kick()
        c_ref = dict(ii, cls=cls, kw=dict(kw0, optimization_options=dict(all_off)))
        ref_obs = drivers.observe(c_ref)
        if ref_obs["exc"]:
            viol.append({"kind": "reference_exception", "msg": f"{cls}({iname}, all optimisations off) raised {ref_obs['exc']}"})
            continue
        ref = _objective(cls, ref_obs, rkey)
        for aname, fl in [assignments[0]] + assignments[2:] + extra:
            runner.kick()
            kw = dict(kw0, optimization_options=dict(fl))
            obs = drivers.observe(dict(ii, cls=cls, kw=kw))
            tags["runs"] += 1
            ctx = f"{cls}({iname}; options {aname})"
            if obs["exc"]:
                if obs["exc_type"] == "ValueError" and "Cannot optimize with both" in obs["exc"]:
                    tags["documented_incompatible"] += 1
                    continue
                viol.append({"kind": "option_raises", "opt": aname, "msg": f"{ctx} raised {obs['exc']} in {obs['phase']}; without optimisations: {ref}"})
                continue
            cur = _objective(cls, obs, rkey)
            if _really_differs(cls, rkey, c_ref, dict(ii, cls=cls, kw=kw), ref, cur, tags):
                viol.append({"kind": "option_changes_result", "opt": aname, "msg": f"{ctx}: {cur}, with all optimisations off: {ref}"})
            elif ref[0] == "solved":
                nt.append(f"{key}|{iname}|{aname}")
            if obs["solved"]:
                m = obs["model"]
                if getattr(m, "edges_set_to_zero", None):
                    tags["models_with_zero_fixes"] += 1
                if getattr(m, "edges_set_to_one", None):
                    tags["models_with_one_fixes"] += 1
            if len(viol) > 6:
                break
        if len(viol) > 6:
            break
    seen = collections.Counter()
    out = []
    for v in viol:
        seen[v["kind"] + str(v.get("opt"))] += 1
        if seen[v["kind"] + str(v.get("opt"))] <= 1:
            out.append(v)
    return {"v": out[:6], "nt": nt, "tags": dict(tags), "out": "viol" if viol else "ok"}
