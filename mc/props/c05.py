"""C05 - optimisation options never change solvability or the optimal objective."""
import collections

from .. import world, drivers, preds, sweep, common

SPEC = {
    "id": "C05",
    "level": "exploration",
    "design_ref": "DESIGN.md section 5, C05",
    "rule": ("cases = (every class accepting optimization_options) x (instance, its perturbed variant for the error models, with/without a constraint, k below / at the optimum for "
             "k-models); inside: every flag assignment differing from the default in <= 1 flag (quick) / <= 2 flags (thorough), the all-off assignment, the FULL cross product of flags on the "
             "smallest shapes (thorough), and the class specific options (greedy, flow-safe paths, min-gen-set bound +- partition constraints, lowerbound_k, guessed weights, free walks); "
             "oracle: differential - (solved?, objective) must equal that of the all-optimisations-off configuration of the same input; SystemExit or any non-ValueError exception counts "
             "as 'solvability changed'. non-trivial = distinct (class, instance, assignment) compared where the reference was solved"),
    "assumptions": ["documented incompatible combinations (ValueError 'Cannot optimize with both ...') are excluded",
                    "objective = number of routes (Min*), total error (LAE), total slack (MPE), solved flag (k-FD, k-cover)"],
}


def bounds(tier):
    q = tier == "quick"
    return {"flag_deviations": 1 if q else 2, "full_cross_product": "none" if q else "shapes with <= 3 arcs (DAG) / <= 4 arcs (cyclic)",
            "instances": "W-DAG(n<=4) x 2 flows; cyclic W-DIG(n<=4, arcs<=5)+named x 2 flows" if q else "W-DAG(n<=5, arcs<=6) x 2; cyclic W-DIG(n<=4, arcs<=6)+W-NAMED x 2"}


def cases(tier, seed):
    q = tier == "quick"
    for inst in sweep.dag_instances(tier, seed):
        for cls in sweep.DAG_CLASSES:
            lvl = 1 if q else (3 if len(inst["arcs"]) <= 3 else 2)
            yield dict(inst, cls=cls, level=lvl)
    for inst in sweep.cyc_instances(tier, seed):
        for cls in sweep.CYC_CLASSES:
            lvl = 1 if q else (3 if len(inst["arcs"]) <= 4 else 2)
            yield dict(inst, cls=cls, level=lvl)


def _objective(cls, obs, rkey):
    if not obs["solved"]:
        return ("unsolved",)
    if cls.startswith("Min"):
        return ("solved", len(obs["sol"][rkey]))
    if "LeastAbsErrors" in cls or "MinPathError" in cls:
        return ("solved", round(float(obs["obj"]), 5))
    return ("solved",)


def run(case):
    viol = []
    nt = []
    tags = collections.Counter()
    cls = case["cls"]
    cyc = sweep.is_cyc(cls)
    rkey = "walks" if cyc else "paths"
    ckey = "subset_constraints" if cyc else "subpath_constraints"
    inst = {k: case[k] for k in ("fam", "nodes", "arcs")}
    E = [(a[0], a[1]) for a in inst["arcs"]]
    key = world.shape_key((len(inst["nodes"]), tuple(E))) + "|" + ",".join(str(a[2]) for a in inst["arcs"]) + "|" + cls
    is_k = cls.startswith("k")
    cover = cls in sweep.COVER
    width = sweep.width_of(inst)
    # inputs: (name, instance, base kw)
    inputs = []
    base_kw = {} if cover else {"weight_type": "int"}
    if is_k:
        if cls in ("kFlowDecomp", "kFlowDecompCycles"):
            sib = "MinFlowDecompCycles" if cyc else "MinFlowDecomp"
            o = drivers.observe(dict(inst, cls=sib, kw={"weight_type": "int", "optimization_options": {f: False for f in (sweep.CYC_FLAGS if cyc else sweep.DAG_FLAGS + sweep.FD_DAG_FLAGS)}}))
            if not o["solved"]:
                return {"v": [], "nt": None, "tags": {"no_reference": 1}, "out": "skip"}
            kopt = len(o["sol"][rkey])
        elif "LeastAbsErrors" in cls:
            kopt = max(1, min(2, width))
        else:
            kopt = width
        for k in sorted({max(1, kopt - 1), kopt, kopt + 1}):
            inputs.append((f"k={k}", inst, dict(base_kw, k=k)))
        if cls in sweep.ERRM:
            inputs.append((f"perturbed,k={kopt}", sweep.perturbed(inst), dict(base_kw, k=kopt)))
            inputs.append((f"perturbed,float,k={kopt}", sweep.perturbed(inst), dict(base_kw, k=kopt, weight_type="float")))
    else:
        inputs.append(("plain", inst, dict(base_kw)))
        if not cover:
            inputs.append(("float", inst, dict(base_kw, weight_type="float")))
    con = sweep.a_constraint(inst)
    if con:
        nm, ii, kw0 = inputs[-1] if not is_k else inputs[1 if len(inputs) > 1 else 0]
        inputs.append((nm + ",constraint", ii, dict(kw0, **{ckey: [con]})))
    if len(E) > 1 and sweep.width_of(inst, ignored=[E[0]]):
        nm, ii, kw0 = inputs[0] if not is_k else inputs[min(1, len(inputs) - 1)]
        inputs.append((nm + ",ignore", ii, dict(kw0, elements_to_ignore=[list(E[0])])))

    assignments = sweep.flag_sets(cls, case["level"])
    extra = []
    if cls == "MinFlowDecomp":
        extra = [("mingenset", {"use_min_gen_set_lowerbound": True}), ("mingenset+part", {"use_min_gen_set_lowerbound": True, "use_min_gen_set_lowerbound_partition_constraints": True}),
                 ("guessed", {"optimize_with_guessed_weights": True}), ("guessed+mgs", {"optimize_with_guessed_weights": True, "use_min_gen_set_lowerbound": True}),
                 ("lowerbound_k=1", {"lowerbound_k": 1}), ("guessed,no_subgraph_weights", {"optimize_with_guessed_weights": True, "use_subgraph_scanning_weights_in_given_weights_optimization": False}),
                 ("mingenset,no_sums_of_two", {"use_min_gen_set_lowerbound": True, "min_gen_set_remove_sums_of_two": False})]
    elif cls == "MinFlowDecompCycles":
        extra = [("mingenset", {"use_min_gen_set_lowerbound": True}), ("guessed", {"optimize_with_guessed_weights": True}),
                 ("guessed+free", {"optimize_with_guessed_weights": True, "optimize_with_given_weights_num_free_walks": 1}),
                 ("guessed+mgs+add", {"optimize_with_guessed_weights": True, "use_min_gen_set_lowerbound": True, "add_min_gen_set_to_given_weights": True}),
                 ("lowerbound_k=1", {"lowerbound_k": 1})]
    all_off = assignments[1][1]
    for iname, ii, kw0 in inputs:
        ref_obs = drivers.observe(dict(ii, cls=cls, kw=dict(kw0, optimization_options=dict(all_off))))
        if ref_obs["exc"]:
            viol.append({"kind": "reference_exception", "msg": f"{cls}({iname}, all optimisations off) raised {ref_obs['exc']}"})
            continue
        ref = _objective(cls, ref_obs, rkey)
        for aname, fl in [assignments[0]] + assignments[2:] + extra:
            kw = dict(kw0, optimization_options=dict(fl))
            obs = drivers.observe(dict(ii, cls=cls, kw=kw))
            tags["runs"] += 1
            ctx = f"{cls}({iname}; options {aname})"
            if obs["exc"]:
                if obs["exc_type"] == "ValueError" and "Cannot optimize with both" in obs["exc"]:
                    tags["documented_incompatible"] += 1
                    continue
                viol.append({"kind": "option_raises", "opt": aname, "msg": f"{ctx} raised {obs['exc']} in {obs['phase']}; without optimisations: {ref}"})
                continue
            cur = _objective(cls, obs, rkey)
            if cur != ref:
                viol.append({"kind": "option_changes_result", "opt": aname, "msg": f"{ctx}: {cur}, with all optimisations off: {ref}"})
            elif ref[0] == "solved":
                nt.append(f"{key}|{iname}|{aname}")
            if obs["solved"]:
                m = obs["model"]
                if getattr(m, "edges_set_to_zero", None):
                    tags["models_with_zero_fixes"] += 1
                if getattr(m, "edges_set_to_one", None):
                    tags["models_with_one_fixes"] += 1
            if len(viol) > 6:
                break
        if len(viol) > 6:
            break
    seen = collections.Counter()
    out = []
    for v in viol:
        seen[v["kind"] + str(v.get("opt"))] += 1
        if seen[v["kind"] + str(v.get("opt"))] <= 1:
            out.append(v)
    return {"v": out[:6], "nt": nt, "tags": dict(tags), "out": "viol" if viol else "ok"}
