"""C08 - k-Minimum-Path-Error is feasible for k >= width and minimises total slack (DAG and cyclic)."""
import collections
import itertools
import math

from .. import world, drivers, preds, fit
from .. import oracles as O
from .c07 import routes_and_cols

SPEC = {
    "id": "C08",
    "level": "exploration",
    "design_ref": "DESIGN.md section 5, C08",
    "rule": ("cases = (shape; DAG model on W-DAG, cyclic model on W-DIG/W-NAMED) x (every weight vector of the alphabet, not all zero); inside: "
             "k in {width, width+1, None} (width = brute-force minimum cover of the non-ignored arcs) x weight_type x variants {plain, each single "
             "ignored arc, error_scaling 0.5 / 0, additional start / end, path-length factors (int, DAG), solution_weights_superset}; judged: solved, "
             "valid routes, |f - sum w| * scale <= sum of (length-scaled) slacks through every non-ignored arc, objective == sum of slacks, k=None picks "
             "the width, and no (routes, weights, slacks) with smaller total slack exists by brute force; non-trivial = distinct (shape, weights, k, variant) solved and compared"),
    "assumptions": ["int optimum: weights in 0..max f, slacks in 0..k*max f + 1",
                    "float optimum: vertex enumeration of the (weights, slacks) LP per route tuple with exact Fractions (k=1 always, k=2 for <= 3 elements)",
                    "cyclic: traversals count with multiplicity on both sides of the inequality; walk vectors with <= B traversals per arc"],
}


def bounds(tier):
    if tier == "quick":
        return {"dag": "W-DAG shapes with <=4 arcs, weights {0,1,3}^E", "cyclic": "cyclic W-DIG(n<=4) shapes with <=4 arcs, weights {0,1,3}^E; named shapes all-ones", "k": "width, width+1 (<=2), None", "B": 2}
    return {"dag": "W-DAG(n<=5) shapes with <=5 arcs, weights {0..3}^E (|E|<=4) / {0,1,3}^E", "cyclic": "cyclic W-DIG(n<=4) shapes with <=5 arcs, weights {0,1,3}^E; named shapes", "k": "width, width+1 (<=3), None", "B": 3}


def cases(tier, seed):
    q = tier == "quick"
    amax = 4 if q else 5
    # a stem carrying 0 into two long branches carrying 10 (given weights [12, 12]: both branches taken, the stem sees 24)
    yield {"fam": "dag", "nodes": ["a", "b", "c", "d", "e", "f"], "arcs": [["a", "b", 0], ["b", "c", 10], ["c", "d", 10], ["b", "e", 10], ["e", "f", 10]], "full": True, "kcap": 2, "B": 1}
    for idx, shp in enumerate(world.dag_shapes(4 if q else 5)):
        if len(shp[1]) > amax:
            continue
        names, arcs = world.present(shp, seed, idx)
        alpha = (0, 1, 3) if (q or len(arcs) > 4) else (0, 1, 2, 3)
        for i, fv in enumerate(itertools.product(alpha, repeat=len(arcs))):
            if max(fv) == 0:
                continue
            yield {"fam": "dag", "nodes": names, "arcs": [[u, v, w] for (u, v), w in zip(arcs, fv)], "full": i % (4 if len(arcs) <= 4 else 12) == 0, "kcap": 2 if q else 3, "B": 1}
    for idx, shp in enumerate(world.dig_shapes(4, amax)):
        if world.is_acyclic(*shp):
            continue
        names, arcs = world.present(shp, seed, idx)
        for i, fv in enumerate(itertools.product((0, 1, 3), repeat=len(arcs))):
            if max(fv) == 0:
                continue
            yield {"fam": "cyc", "nodes": names, "arcs": [[u, v, w] for (u, v), w in zip(arcs, fv)], "full": i % 7 == 0, "kcap": 2, "B": 2 if q else 3}
    # a single walk of weight 1 that goes round a cycle r times, r in {2, 3, 4} (multiplicities that are and are not powers of two):
    # the optimum is error / slack 0 with k = 1
    for idx, shp in enumerate(world.dig_shapes(4, 4)):
        if world.is_acyclic(*shp):
            continue
        names, arcs = world.present(shp, seed, idx)
        g_ = O.STGraph(names, arcs)
        vs = sorted(set(v for v, _, _ in O.walk_vectors(g_, {e: 4 for e in g_.arcs})))
        picked = 0
        for v in vs:
            if max(v) in (2, 3, 4) and min(v) >= 1 and picked < 4:
                picked += 1
                yield {"fam": "cyc", "nodes": names, "arcs": [[a, b, w] for (a, b), w in zip(arcs, v)], "full": False, "kcap": 1, "B": 4}
    for idx, shp in enumerate(world.named_shapes()):
        names, arcs = world.present(shp, seed, 1000 + idx)
        if len(arcs) > 7:
            continue
        yield {"fam": "cyc", "nodes": names, "arcs": [[u, v, 1] for (u, v) in arcs], "full": False, "kcap": 1 if len(arcs) > 5 else 2, "B": 2}


def run(case):
    viol = []
    nt = []
    tags = collections.Counter()
    fam = case["fam"]
    cyc = fam == "cyc"
    cls = "kMinPathErrorCycles" if cyc else "kMinPathError"
    rkey = "walks" if cyc else "paths"
    V = case["nodes"]
    E = [(a[0], a[1]) for a in case["arcs"]]
    f = {(a[0], a[1]): a[2] for a in case["arcs"]}
    F = max(f.values())
    key = world.shape_key((len(V), tuple(E))) + "|" + ",".join(str(f[e]) for e in E)
    G = drivers.build_graph(case)
    inner = [v for v in V if any(a[1] == v for a in E) and any(a[0] == v for a in E)]
    from ..known import _reach_caps
    caps = _reach_caps(case) if cyc else None

    def one(kmode, wt, variant, kw_extra, ignored=(), scaling=None, starts=(), ends=(), factors=None, pool=None):
        elements = [e for e in E if e not in ignored and not (scaling and scaling.get(e, 1) == 0)]
        if not elements:
            return
        g = O.STGraph(V, E, starts, ends)
        width = O.min_cover(g, elements)
        if width is None or width < 1:
            return
        if kmode == "width":
            k = width
        elif kmode == "width+1":
            k = width + 1
        else:
            k = None
        kk = width if k is None else k
        if kk > case["kcap"]:
            return
        kw = {"k": k, "weight_type": wt}
        kw.update(kw_extra)
        if variant == "solve_twice":
            obs = drivers.observe(dict(case, cls=cls, kw=kw, solve_twice=True), G)
        elif variant.startswith("noise"):
            # solver answers within tolerance: every value read from the solver shifted by -/+ 5e-10
            from .. import faults
            with faults.ValueNoise(-5e-10 if variant.endswith("-") else 5e-10):
                obs = drivers.observe(dict(case, cls=cls, kw=kw), G)
        else:
            obs = drivers.observe(dict(case, cls=cls, kw=kw), G)
        tags[f"{fam}:{variant}"] += 1
        ctx = f"{cls}(k={kmode}={kk}, {wt}, {variant}={kw_extra})"
        if obs["exc"]:
            viol.append({"kind": "mpe_exception", "msg": f"{ctx} raised {obs['exc']} in {obs['phase']}"})
            return
        m = obs["model"]
        if k is None and pool is None and getattr(m, "k", None) != width:
            viol.append({"kind": "mpe_k_none_not_width", "msg": f"{ctx}: k=None chose k={getattr(m, 'k', None)}, the covering number of the non-ignored arcs is {width}"})
        # oracle family
        sc = [(scaling or {}).get(e, 1) for e in elements]
        fv = [f[e] for e in elements]
        idx = [E.index(e) for e in elements]

        def family(B):
            return routes_and_cols(case, starts, ends, B, None)

        def fac_of(col):
            if factors is None:
                return None
            # DAG: path length = number of arcs incl. the synthetic source and sink arcs
            L = sum(col) + 2
            for (lo, hi), fc in zip(factors[0], factors[1]):
                if lo <= L <= hi:
                    return fc
            return None

        def best_of(fcols):
            cols = sorted(set(tuple(c[i] for i in idx) + ((fac_of(c),) if factors else ()) for c in fcols))
            if factors:
                facs = [c[-1] for c in cols]
                cols = [c[:-1] for c in cols]
                if any(x is None for x in facs):
                    keep = [i for i, x in enumerate(facs) if x is not None]
                    cols = [cols[i] for i in keep]
                    facs = [facs[i] for i in keep]
            else:
                facs = None
            if not cols:
                return None, None, cols
            if wt == "float" and (kk > 2 or (kk == 2 and len(elements) > 3)):
                return "skip", None, cols
            b, w = fit.mpe_opt(cols, fv, sc, kk, wt, F, factors=facs)
            return b, w, cols

        if not obs["solved"]:
            kind = "mpe_unsolved_at_width"
            if pool is not None:
                # given weights: the model has exactly len(pool) routes, each pool entry used at most once; arcs with positive
                # need must lie on a route, so a pool shorter than the covering number can be infeasible - ask the pool oracle
                pcols = sorted(set(tuple(c[i] for i in idx) for c in family(case["B"])))
                pb, _pw = fit.mpe_opt_pool(pcols, fv, sc, pool, len(pool), F)
                if pb is None:
                    tags["given_weights_infeasible(agreed)"] += 1
                    return
            if cyc:
                fam_cols = family(case["B"])
                capped = [c for c in fam_cols if all(c[j] <= math.floor(caps[E[j]] + 1e-9) for j in range(len(E)))]
                # can k capped walks cover every element with positive need? (feasibility needs a cover)
                covers = False
                for combo in itertools.combinations_with_replacement(range(len(capped)), kk):
                    if all(any(capped[c][i] > 0 for c in combo) for i in idx):
                        covers = True
                        break
                if not covers:
                    kind = "mpe_unsolved_beyond_cap"
            viol.append({"kind": kind, "msg": f"{ctx}: not solved (status {drivers.status_of(m)}) although k >= covering number {width}"})
            return
        sol = obs["sol"]
        routes = sol.get(rkey)
        exact = not starts and not ends and pool is None
        errs = preds.shape_errors(sol, rkey, k=(kk if pool is None else len(pool)), exact_k=exact, weight_type=wt)
        if not errs and "slacks" not in sol:
            errs.append("no 'slacks' in the solution")
        if not errs:
            errs += preds.route_errors(case, routes, cyc, starts, ends)
        if errs:
            viol.append({"kind": "mpe_invalid_solution", "msg": f"{ctx}: {errs[0]}", "solution": {rkey: routes, "weights": sol.get("weights"), "slacks": sol.get("slacks")}})
            return
        # feasibility of the returned triple
        slk = sol["slacks"]
        sslk = list(slk)
        if factors is not None:
            sslk = []
            for r, s_ in zip(routes, slk):
                L = len(r) + 1
                fc = [fcv for (lo, hi), fcv in zip(factors[0], factors[1]) if lo <= L <= hi]
                sslk.append(s_ * (fc[0] if fc else 1))
            if "scaled_slacks" in sol:
                for a_, b_ in zip(sol["scaled_slacks"], sslk):
                    if abs(a_ - b_) > 1e-6 * (1 + abs(b_)):
                        viol.append({"kind": "mpe_scaled_slack_mismatch", "msg": f"{ctx}: scaled_slacks {sol['scaled_slacks']} but slack*factor(path length) = {sslk}"})
                        break
        amt, _ = preds.traversals(routes, sol["weights"])
        samt, _ = preds.traversals(routes, sslk)
        for e, s_ in zip(elements, sc):
            lhs = abs(f[e] - amt.get(e, 0)) * s_
            rhs = samt.get(e, 0)
            if lhs > rhs + 1e-6 * (1 + lhs):
                viol.append({"kind": "mpe_slack_violated", "msg": f"{ctx}: arc {e}: |f - sum w| * scale = {lhs} > sum of slacks through it = {rhs}",
                             "solution": {rkey: routes, "weights": sol.get("weights"), "slacks": slk}})
                return
        tot = sum(slk)
        if abs(obs["obj"] - tot) > 1e-6 * (1 + abs(tot)):
            viol.append({"kind": "mpe_objective_mismatch", "msg": f"{ctx}: get_objective_value()={obs['obj']} but the slacks sum to {tot}"})
        used = max([1] + [c for r in routes for c in collections.Counter(zip(r[:-1], r[1:])).values()])
        B = max(case["B"], used)
        if pool is not None:
            pcols = sorted(set(tuple(c[i] for i in idx) for c in family(B)))
            pb, pw = fit.mpe_opt_pool(pcols, fv, sc, pool, kk, F)
            if pb is not None and tot > pb + 1e-6:
                viol.append({"kind": "mpe_not_optimal", "msg": f"{ctx}: total slack {tot} but with the given weights {pw} achieves {pb}",
                             "solution": {rkey: routes, "weights": sol.get("weights"), "slacks": slk}})
            elif pb is not None and tot < pb - 1e-6:
                viol.append({"kind": "oracle_beaten", "msg": f"{ctx}: library slack {tot} < brute-force optimum {pb} with the given weights",
                             "solution": {rkey: routes, "weights": sol.get("weights"), "slacks": slk}})
            else:
                nt.append(f"{key}|{ctx}")
            return
        fcols = family(B)
        best, wit, cols = best_of(fcols)
        if best == "skip" or best is None:
            return
        tolb = 1e-6 * (1 + abs(best))
        if tot > best + tolb and not variant.startswith("noise") and variant != "solve_twice":
            o_np = drivers.objective_without_presolve(dict(case, cls=cls, kw=kw), G)
            if o_np["solved"] and o_np["obj"] is not None and o_np["obj"] <= best + tolb:
                tags["highs_presolve_wrong_optimum"] += 1
                return
        if tot > best + tolb:
            kind = "mpe_not_optimal"
            if cyc:
                capped = [c for c in fcols if all(c[j] <= math.floor(caps[E[j]] + 1e-9) for j in range(len(E)))]
                bc, _, _ = best_of(capped)
                if bc is None or bc == "skip" or tot <= bc + 1e-6 * (1 + abs(bc)):
                    kind = "mpe_not_optimal_beyond_cap"
            viol.append({"kind": kind, "msg": f"{ctx}: total slack {tot} but {wit} achieves {best} (family: <= {B} traversals per arc)",
                         "solution": {rkey: routes, "weights": sol.get("weights"), "slacks": slk}, "witness": wit,
                         "witness_cols": [list(cols[j]) for j in wit["routes"]], "route_columns_over": [list(e) for e in elements]})
        elif tot < best - tolb:
            viol.append({"kind": "oracle_beaten", "msg": f"{ctx}: library slack {tot} < brute-force optimum {best}",
                         "solution": {rkey: routes, "weights": sol.get("weights"), "slacks": slk}})
        else:
            nt.append(f"{key}|{ctx}")

    for kmode in ("width", "width+1", "none"):
        for wt in ("int", "float"):
            one(kmode, wt, "plain", {})
            if len(viol) > 4:
                return _ret(viol, nt, tags)
    one("width", "int", "solve_twice", {})
    one("width", "int", "noise-", {})
    one("width", "int", "noise+", {})
    if not case["full"]:
        return _ret(viol, nt, tags)
    for e in E:
        rest = [x for x in E if x != e]
        if rest and any(f[x] for x in rest):
            one("width", "int", "ignore", {"elements_to_ignore": [list(e)]}, ignored=[e])
            one("none", "int", "scale0", {"error_scaling": [[list(e), 0]]}, scaling={e: 0})
        one("width", "int", "scale", {"error_scaling": [[list(e), 0.5]]}, scaling={e: 0.5})
        one("width", "float", "scale", {"error_scaling": [[list(e), 0.5]]}, scaling={e: 0.5})
        if len(viol) > 4:
            return _ret(viol, nt, tags)
    for v in inner:
        one("width", "int", "add_start", {"additional_starts": [v]}, starts=[v])
        one("none", "int", "add_end", {"additional_ends": [v]}, ends=[v])
        if len(viol) > 4:
            return _ret(viol, nt, tags)
    if not cyc:
        one("width", "int", "length_factors", {"path_length_ranges": [[0, 3], [4, 9]], "path_length_factors": [1, 2]}, factors=([(0, 3), (4, 9)], [1, 2]))
        one("width+1", "int", "length_factors", {"path_length_ranges": [[0, 3], [4, 9]], "path_length_factors": [2, 1]}, factors=([(0, 3), (4, 9)], [2, 1]))
        # factors below 1 (a unit of slack explains less than a unit of error) and factors far apart
        one("width", "int", "length_factors<1", {"path_length_ranges": [[0, 3], [4, 9]], "path_length_factors": [0.5, 1]}, factors=([(0, 3), (4, 9)], [0.5, 1]))
        one("width", "int", "length_factors<1", {"path_length_ranges": [[0, 9]], "path_length_factors": [0.25]}, factors=([(0, 9)], [0.25]))
        one("width", "int", "length_factors_far", {"path_length_ranges": [[3, 3], [4, 4], [0, 2], [5, 9]], "path_length_factors": [1, 20, 1, 2]}, factors=([(3, 3), (4, 4), (0, 2), (5, 9)], [1, 20, 1, 2]))
        pool = sorted({x for x in f.values() if x > 0}) + [F + 2]
        one("width", "int", "weights_superset", {"solution_weights_superset": pool}, pool=pool)
        pool2 = [F + 2, F + 2]
        one("width", "int", "weights_superset_heavy", {"solution_weights_superset": pool2}, pool=pool2)
        # given weights (some slots stay empty) together with path length ranges that do not contain the length 0 of an empty slot
        one("width", "int", "weights_superset+length_ranges", {"solution_weights_superset": pool, "path_length_ranges": [[1, 4], [5, 9]], "path_length_factors": [1, 1]}, pool=pool)
    return _ret(viol, nt, tags)


def _ret(viol, nt, tags):
    seen = collections.Counter()
    out = []
    for v in viol:
        seen[v["kind"]] += 1
        if seen[v["kind"]] <= 2:
            out.append(v)
    return {"v": out, "nt": nt, "tags": dict(tags), "out": "viol:" + ",".join(sorted(seen)) if viol else "ok"}
