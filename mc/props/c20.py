"""C20 - graph files are parsed faithfully and malformed files are rejected."""
import collections
import itertools
import os
import tempfile

from .. import world, common
from .. import oracles as O

SPEC = {
    "id": "C20",
    "level": "exploration",
    "design_ref": "DESIGN.md section 5, C20",
    "rule": ("cases = every file derivable from a small grammar: 1-3 blocks drawn from {every shape of W-DAG(3) and W-DIG(3,4), zero-vertex block}; per block 1-2 header lines, the '#S' lines after or before the id header line, "
             "0-4 '#S' lines (incl. an exact duplicate, a one-node line, and on cyclic graphs different walk-shaped sequences over the same arcs), optional blank lines before the count / between edge lines / at the end, optional leading whitespace, "
             "weights written as 3 / 2.5 / 1e1; then EVERY single-line corruption of each file (token removed from / added to an edge line, non-numeric weight, non-numeric or "
             "missing vertex count, constraint arc absent from the graph). Oracle = the generating description (arcs, weights, id, constraints, n, m, width by the cover oracle); "
             "corruptions must raise ValueError. non-trivial = distinct well-formed file with >= 1 arc parsed and compared, plus distinct corruption rejected"),
    "assumptions": ["'extra comment lines' = extra header lines at the top of a block (what read_graph documents); a comment inside an edge list starts a new block and is outside the format",
                    "graphs have >= 1 source and >= 1 sink (the property's domain)"],
}


def bounds(tier):
    return {"shapes": "W-DAG(n<=3) + W-DIG(n<=3, arcs<=4) + zero-vertex block; cyclic W-DIG(n=4, arcs<=5/6) in the plain layout (stored width)", "blocks_per_file": "1-2 (quick) / 1-3 (thorough)", "layout_variants": len(LAYOUTS)}


LAYOUTS = []
for headers in (1, 2):
    for blank_before_count in (False, True):
        for blank_between in (False, True):
            for lead_ws in (False, True):
                LAYOUTS.append({"headers": headers, "blank_before_count": blank_before_count, "blank_between": blank_between, "lead_ws": lead_ws, "s_first": False})
                if not lead_ws:
                    # the '#S' lines precede the id header line ("the id is the first non-#S header line")
                    LAYOUTS.append({"headers": headers, "blank_before_count": blank_before_count, "blank_between": blank_between, "lead_ws": lead_ws, "s_first": True})


def _block_descr(shape, seed, idx, variant):
    names, arcs = world.present(shape, seed, idx)
    wforms = ["3", "2.5", "1e1", "7"]
    ws = [wforms[(i + variant) % 4] for i in range(len(arcs))]
    g = O.STGraph(names, arcs)
    cons = []
    # constraint lines: node sequences along a route (2 and 3 nodes) if available
    routes = g.simple_paths() if world.is_acyclic(*shape) else [w for w in ([names[0]],)]
    seqs = []
    for u, v in arcs[:2]:
        seqs.append([u, v])
    for (u, v) in arcs:
        for (x, y) in arcs:
            if v == x and (u, v) != (x, y):
                seqs.append([u, v, y])
                break
        if len(seqs) >= 3:
            break
    # walk-shaped constraint lines on cyclic graphs: different node sequences over the same set of arcs
    wseqs = []
    aset = set(arcs)
    for (u, v) in arcs:
        if u == v:
            wseqs = [[u, u], [u, u, u]]
            break
        if (v, u) in aset:
            wseqs = [[u, v, u], [v, u, v], [u, v, u, v, u]]
            break
    return {"names": names, "arcs": [list(a) for a in arcs], "ws": ws, "seqs": seqs, "wseqs": wseqs}


def render(blocks):
    """blocks: list of dict(descr, layout, cons_mode, id) -> list of lines"""
    lines = []
    for b in blocks:
        lay = b["layout"]
        ind = "  " if lay["lead_ws"] else ""
        if lay.get("s_first"):
            for sq in b["slines"]:
                lines.append(f"{ind}#S " + " ".join(sq))
        lines.append(f"{ind}# {b['id']}")
        if lay["headers"] == 2:
            if lay.get("s_first") and lay["blank_before_count"]:
                lines.append("")   # a blank line between two header lines
            lines.append(f"{ind}#second header line, ignored")
        if not lay.get("s_first"):
            for sq in b["slines"]:
                lines.append(f"{ind}#S " + " ".join(sq))
        if lay["blank_before_count"]:
            lines.append("")
        if b["zero"]:
            lines.append(f"{ind}0")
            continue
        lines.append(f"{ind}{len(b['descr']['names'])}")
        for (u, v), w in zip(b["descr"]["arcs"], b["descr"]["ws"]):
            lines.append(f"{ind}{u} {v} {w}")
            if lay["blank_between"]:
                lines.append("")
    return lines


def cases(tier, seed):
    shapes = world.dag_shapes(3) + [s for s in world.dig_shapes(3, 4) if not world.is_acyclic(*s)]
    blocks = []
    for idx, shp in enumerate(shapes):
        for li, lay in enumerate(LAYOUTS):
            d = _block_descr(shp, seed, idx, li)
            for cm in range(5):
                if cm == 4:
                    if not d["wseqs"]:
                        continue
                    sl = d["wseqs"] + d["wseqs"][:1]
                elif cm == 0:
                    sl = []
                elif cm == 1:
                    sl = d["seqs"][:1]
                elif cm == 2:
                    sl = d["seqs"][:2] + d["seqs"][:1]  # duplicate line
                else:
                    sl = d["seqs"][:1] + [[d["names"][0]]] + d["seqs"][-1:]  # a one-node line defines no constraint
                blocks.append({"descr": d, "layout": lay, "slines": sl, "id": f"graph {idx}.{li}.{cm} name = g{idx}", "zero": False})
    # larger cyclic shapes (n = 4, <= 5 arcs; thorough <= 6): plain layout, no corruptions - they exercise the stored width
    # (parallel arcs between strongly connected components, several SCCs in a row)
    big = []
    for idx, shp in enumerate(world.dig_shapes(4, 5 if tier == "quick" else 6)):
        if shp[0] != 4 or world.is_acyclic(*shp):
            continue
        d = _block_descr(shp, seed, 300 + idx, idx % 4)
        big.append({"descr": d, "layout": LAYOUTS[0], "slines": d["seqs"][:1], "id": f"graph big {idx}", "zero": False})
    zero = {"descr": {"names": [], "arcs": [], "ws": [], "seqs": [], "wseqs": []}, "layout": LAYOUTS[0], "slines": [], "id": "empty graph", "zero": True}
    # single-block files (with all corruptions), then multi-block files
    for i, b in enumerate(blocks):
        yield {"blocks": [b], "corrupt": True, "trailing_blank": i % 2 == 0}
    yield {"blocks": [zero], "corrupt": False, "trailing_blank": False}
    for i in range(0, len(big), 2):
        yield {"blocks": big[i:i + 2], "corrupt": False, "trailing_blank": i % 4 == 0}
    step = 7 if tier == "quick" else 3
    for i in range(0, len(blocks) - 1, step):
        yield {"blocks": [blocks[i], blocks[(i * 5 + 3) % len(blocks)]], "corrupt": False, "trailing_blank": True}
        yield {"blocks": [blocks[i], zero, blocks[(i + 1) % len(blocks)]], "corrupt": False, "trailing_blank": False}
        if tier == "thorough":
            yield {"blocks": [zero, blocks[i], blocks[(i * 3 + 1) % len(blocks)]], "corrupt": True, "trailing_blank": False}


def _expected(b):
    d = b["descr"]
    E = [tuple(a) for a in d["arcs"]]
    exp = {"id": b["id"], "arcs": {e: float(w) for e, w in zip(E, d["ws"])}}
    cons = []
    seen = set()
    for sq in b["slines"]:
        t = tuple(sq)
        if t in seen:
            continue
        seen.add(t)
        if len(sq) >= 2:
            cons.append(list(zip(sq[:-1], sq[1:])))
    exp["constraints"] = cons
    if not b["zero"]:
        nodes = sorted(set(x for e in E for x in e))
        exp["n"] = len(nodes)
        exp["m"] = len(E)
        exp["w"] = O.min_cover(O.STGraph(nodes, E), E)
    else:
        exp["n"], exp["m"], exp["w"] = 0, 0, 0   # stored counts and width match the (empty) graph
    return exp


def _read(lines):
    import flowpaths as fp
    fd, path = tempfile.mkstemp(prefix="c20_", suffix=".graph", dir=os.environ.get("TMPDIR", "/tmp"))
    try:
        with os.fdopen(fd, "w") as f:
            f.write("\n".join(lines) + "\n")
        return fp.graphutils.read_graphs(path)
    finally:
        try:
            os.remove(path)
        except OSError:
            pass


def run(case):
    viol = []
    nt = []
    tags = collections.Counter()
    blocks = case["blocks"]
    lines = render(blocks)
    if case["trailing_blank"]:
        lines = lines + ["", ""]
    ctx = "file:\n" + "\n".join(lines)
    try:
        gs = _read(lines)
    except Exception as e:
        viol.append({"kind": "wellformed_file_rejected", "msg": f"{common.exc_str(e)} on well-formed {ctx}"})
        return {"v": viol, "nt": None, "tags": dict(tags), "out": "rejected"}
    tags["wellformed_files"] += 1
    if len(gs) != len(blocks):
        viol.append({"kind": "wrong_block_count", "msg": f"{len(gs)} graphs returned for {len(blocks)} blocks in {ctx}"})
    else:
        for gi, (G, b) in enumerate(zip(gs, blocks)):
            exp = _expected(b)
            got_arcs = {(u, v): d.get("flow") for u, v, d in G.edges(data=True)}
            errs = []
            if got_arcs != exp["arcs"]:
                errs.append(f"arcs/weights {got_arcs} != listed {exp['arcs']}")
            if any(not isinstance(n_, str) for n_ in G.nodes()):
                errs.append("non-string node names")
            if G.graph.get("id") != exp["id"]:
                errs.append(f"id {G.graph.get('id')!r} != first header line {exp['id']!r}")
            if [list(map(tuple, c)) for c in G.graph.get("constraints", [])] != exp["constraints"]:
                errs.append(f"constraints {G.graph.get('constraints')} != {exp['constraints']}")
            for k in ("n", "m", "w"):
                if G.graph.get(k) != exp[k]:
                    errs.append(f"stored {k}={G.graph.get(k)} but the graph has {exp[k]}")
            if b["zero"] and G.number_of_nodes() != 0:
                errs.append("zero-vertex block produced nodes")
            if errs:
                viol.append({"kind": "parsed_graph_differs", "msg": f"block {gi}: {errs[0]} in {ctx}"})
            elif exp["arcs"]:
                nt.append(f"{b['id']}|{b['layout']}|{len(blocks)}|{gi}")
    if not case["corrupt"] or viol:
        return {"v": viol[:3], "nt": nt, "tags": dict(tags), "out": "wellformed"}
    # ---- every single-line corruption ----
    corruptions = []
    for i, ln in enumerate(lines):
        s = ln.strip()
        if not s:
            continue
        toks = s.split()
        if s.startswith("#S"):
            # constraint naming an absent arc: reverse the node sequence / append an unknown node
            corruptions.append((f"line {i}: constraint with unknown node", lines[:i] + [ln + " zz9"] + lines[i + 1:]))
            if len(toks) >= 3:
                rev = "#S " + " ".join(reversed(toks[1:]))
                # reversed sequence is absent unless the reverse arcs exist too
                names_arcs = set()
                for b in blocks:
                    names_arcs |= {tuple(a) for a in b["descr"]["arcs"]}
                rv = list(reversed(toks[1:]))
                if any((u, v) not in names_arcs for u, v in zip(rv[:-1], rv[1:])):
                    corruptions.append((f"line {i}: constraint reversed", lines[:i] + [rev] + lines[i + 1:]))
            continue
        if s.startswith("#"):
            continue
        if len(toks) == 1:
            corruptions.append((f"line {i}: non-numeric vertex count", lines[:i] + ["three"] + lines[i + 1:]))
            # a count line with a second token is neither a count nor an edge line
            corruptions.append((f"line {i}: vertex count followed by a word", lines[:i] + [s + " x"] + lines[i + 1:]))
            corruptions.append((f"line {i}: vertex count followed by a number", lines[:i] + [s + " 5"] + lines[i + 1:]))
            corruptions.append((f"line {i}: fractional vertex count", lines[:i] + [s + ".5"] + lines[i + 1:]))
            if s != "0" and any(x.strip().startswith("#S") and len(x.split()) >= 3 for x in lines[max(0, i - 4):i]):
                # count corrupted to 0 and the edge lines lost: the '#S' lines of the block now name absent arcs
                nxt = [j for j in range(i + 1, len(lines)) if lines[j].strip().startswith("#")]
                end = nxt[0] if nxt else len(lines)
                corruptions.append((f"line {i}: vertex count 0 and no edge lines, constraints kept", lines[:i] + ["0"] + lines[end:]))
            if s == "0":
                corruptions.append((f"line {i}: malformed edge line after a 0 count", lines[:i + 1] + ["a b"] + lines[i + 1:]))
            if any(len(x.split()) == 3 and not x.strip().startswith("#") for x in lines[i + 1:i + 3]):
                corruptions.append((f"line {i}: vertex count line deleted", lines[:i] + lines[i + 1:]))
        elif len(toks) == 3:
            corruptions.append((f"line {i}: token removed", lines[:i] + [" ".join(toks[:2])] + lines[i + 1:]))
            corruptions.append((f"line {i}: token added", lines[:i] + [s + " 1"] + lines[i + 1:]))
            corruptions.append((f"line {i}: non-numeric weight", lines[:i] + [f"{toks[0]} {toks[1]} heavy"] + lines[i + 1:]))
            corruptions.append((f"line {i}: weight 'nan'", lines[:i] + [f"{toks[0]} {toks[1]} nan"] + lines[i + 1:]))
            corruptions.append((f"line {i}: weight 'inf'", lines[:i] + [f"{toks[0]} {toks[1]} inf"] + lines[i + 1:]))
    for what, bad in corruptions:
        tags["corruptions"] += 1
        try:
            gs = _read(bad)
            viol.append({"kind": "malformed_file_accepted", "msg": f"{what}: no error ({len(gs)} graphs returned) for file:\n" + "\n".join(bad)})
        except ValueError:
            nt.append(f"{blocks[0]['id']}|{blocks[0]['layout']}|{what}")
        except Exception as e:
            viol.append({"kind": "malformed_file_wrong_exception", "msg": f"{what}: raised {common.exc_str(e)} instead of ValueError for file:\n" + "\n".join(bad)})
        if len(viol) > 3:
            break
    return {"v": viol[:3], "nt": nt, "tags": dict(tags), "out": "corrupt" if not viol else "viol"}
