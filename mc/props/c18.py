"""C18 - a model's result depends only on its own arguments; caller data is never mutated.

E-states: BFS over histories of operations that all receive the SAME argument objects (graph, option dicts,
constraint / ignore lists, scaling dict, start/end lists) or omit them (so that the mutable default arguments are
used). The state is the canonical deep snapshot of everything a later call could observe: the shared argument
objects, __init__.__defaults__ of every class, class-level attributes of the model classes and of SolverWrapper.
Invariants in every reached state: snapshot == pristine snapshot; the solution-invariant observation of each
operation equals its observation from the initial state; repeated solve()/getters agree."""
import collections
import copy
import itertools
import json

from .. import common, drivers, preds

SPEC = {
    "id": "C18",
    "level": "model_checking",
    "design_ref": "DESIGN.md section 5, C18",
    "rule": ("alphabet = one operation per (model class, argument variant), ~40 operations, each = construct with the shared argument objects + solve() twice + "
             "get_solution()/get_objective_value() twice; histories of length 1 and 2 (thorough: 3 over a reduced alphabet) are explored exhaustively; the state "
             "after every operation is hashed canonically; if the reachable state set is {s0}, every operation has been evaluated in every reachable state. "
             "non-trivial = distinct history of length >= 2 whose last operation was solved"),
    "assumptions": ["observations compare solution-invariant features only (exception type, solved, objective, number of routes, validity)",
                    "id()-derived names and solve_statistics timings are excluded from snapshots"],
}

GRAPHS = {
    # diamond with a chord; conserving flow
    "G1": {"nodes": ["s", "a", "b", "t"], "arcs": [["s", "a", 5], ["a", "t", 3], ["a", "b", 2], ["s", "b", 1], ["b", "t", 3]]},
}


# a long graph (27 nodes: 12 bubbles in a row): MinFlowDecomp's subgraph-scanning lower bound only does something above 20 nodes
_G2_arcs = []
for _i in range(12):
    _G2_arcs += [[f"n{_i}", f"n{_i + 1}", 3], [f"n{_i}", f"b{_i}", 2], [f"b{_i}", f"n{_i + 1}", 2]]
_G2_arcs += [["n12", "n13", 5]]
GRAPHS["G2"] = {"nodes": [f"n{_i}" for _i in range(14)] + [f"b{_i}" for _i in range(12)], "arcs": _G2_arcs}
G2_OPS = ["MinFlowDecomp:scan", "MinFlowDecomp:shared_scan", "MinFlowDecomp:defaults", "kFlowDecomp:defaults", "MinFlowDecomp:node"]


def bounds(tier):
    return {"history_length": 2 if tier == "quick" else 3, "graphs": list(GRAPHS), "operations": len(OPS), "operations_on_G2": G2_OPS}


def _ops():
    ops = {}
    shared = ["optimization_options", "solver_options", "elements_to_ignore"]
    for cls in ["kFlowDecomp", "kMinPathError", "kLeastAbsErrors"]:
        ops[f"{cls}:shared"] = {"cls": cls, "k": 3, "use": shared + ["subpath_constraints"]}
        ops[f"{cls}:defaults"] = {"cls": cls, "k": 3, "use": []}
        ops[f"{cls}:superset"] = {"cls": cls, "k": 3, "use": ["optimization_options", "solver_options"], "extra": {"solution_weights_superset": [1, 2, 3, 5]}}
        ops[f"{cls}:node"] = {"cls": cls, "k": 3, "use": ["optimization_options", "solver_options"], "extra": {"flow_attr_origin": "node"}, "node": True}
        ops[f"{cls}:superset_cons"] = {"cls": cls, "k": 3, "use": ["solver_options", "subpath_constraints"], "extra": {"solution_weights_superset": [1, 2, 3, 5]}}
        ops[f"{cls}:safety_as_cons"] = {"cls": cls, "k": 3, "use": ["solver_options", "subpath_constraints"],
                                        "extra": {"optimization_options": {"optimize_with_safety_as_subpath_constraints": True, "optimize_with_greedy": False}}}
    for cls in ["kMinPathError", "kLeastAbsErrors"]:
        ops[f"{cls}:scaling"] = {"cls": cls, "k": 3, "use": ["optimization_options", "solver_options", "error_scaling", "additional_starts", "additional_ends"]}
    # lengths: the shared graph has a 'length' on its nodes and on NO arc (arcs without the attribute count 1 in edge mode)
    for cls in ["kFlowDecomp", "kMinPathError", "MinFlowDecomp"]:
        kk = {} if cls.startswith("Min") else {"k": 3}
        ops[f"{cls}:node_len"] = dict({"cls": cls, "use": ["solver_options"], "extra": {"flow_attr_origin": "node", "length_attr": "length",
                                                                                     "optimization_options": {"optimize_with_greedy": False}}, "node": True}, **kk)
        ops[f"{cls}:edge_len"] = dict({"cls": cls, "use": ["solver_options", "subpath_constraints"],
                                       "extra": {"length_attr": "length", "subpath_constraints_coverage_length": 0.6, "optimization_options": {"optimize_with_greedy": False}}}, **kk)
    for cls in ["kFlowDecompCycles", "kMinPathErrorCycles", "kLeastAbsErrorsCycles"]:
        ops[f"{cls}:safety_as_cons"] = {"cls": cls, "k": 3, "use": ["solver_options", "subset_constraints"],
                                        "extra": {"optimization_options": {"optimize_with_safety_as_subset_constraints": True}}}
        ops[f"{cls}:antichain_as_cons"] = {"cls": cls, "k": 3, "use": ["solver_options", "subset_constraints"],
                                           "extra": {"optimization_options": {"optimize_with_max_safe_antichain_as_subset_constraints": True}}}
        ops[f"{cls}:shared"] = {"cls": cls, "k": 3, "use": shared + ["subset_constraints"]}
        ops[f"{cls}:defaults"] = {"cls": cls, "k": 3, "use": []}
    for cls in ["kMinPathErrorCycles", "kLeastAbsErrorsCycles"]:
        ops[f"{cls}:scaling"] = {"cls": cls, "k": 3, "use": ["optimization_options", "solver_options", "error_scaling", "additional_starts", "additional_ends"]}
    for cls in ["MinFlowDecomp", "MinFlowDecompCycles"]:
        ops[f"{cls}:shared"] = {"cls": cls, "use": shared + (["subpath_constraints"] if cls == "MinFlowDecomp" else ["subset_constraints"])}
        ops[f"{cls}:defaults"] = {"cls": cls, "use": []}
        ops[f"{cls}:guessed"] = {"cls": cls, "use": ["solver_options"], "extra": {"optimization_options": {"optimize_with_guessed_weights": True, "use_min_gen_set_lowerbound": True}}}
    for cls in ["kPathCover", "kPathCoverCycles"]:
        ops[f"{cls}:shared"] = {"cls": cls, "k": 3, "use": shared + (["subpath_constraints"] if cls == "kPathCover" else ["subset_constraints"]) + ["additional_starts", "additional_ends"]}
        ops[f"{cls}:defaults"] = {"cls": cls, "k": 3, "use": []}
    for cls in ["MinPathCover", "MinPathCoverCycles"]:
        ops[f"{cls}:shared"] = {"cls": cls, "use": shared + (["subpath_constraints"] if cls == "MinPathCover" else ["subset_constraints"])}
        ops[f"{cls}:defaults"] = {"cls": cls, "use": []}
        ops[f"{cls}:node"] = {"cls": cls, "use": ["solver_options"], "extra": {"cover_type": "node"}}
    # G2 only: the non-default lower-bound option, with its own shared options dict
    ops["MinFlowDecomp:scan"] = {"cls": "MinFlowDecomp", "use": ["solver_options"], "use_as": {"optimization_options": "optimization_options_scan"}}
    ops["MinFlowDecomp:shared_scan"] = {"cls": "MinFlowDecomp", "use": ["solver_options"], "use_as": {"optimization_options": "optimization_options_scan"},
                                        "extra": {"subpath_constraints": [[("n0", "n1"), ("n1", "n2")]]}}
    ops["MinFlowDecomp:node"] = {"cls": "MinFlowDecomp", "use": ["solver_options"], "extra": {"flow_attr_origin": "node"}, "node": True}
    ops["MinErrorFlow:shared"] = {"cls": "MinErrorFlow", "use": ["solver_options", "elements_to_ignore", "error_scaling", "additional_starts", "additional_ends"]}
    ops["MinErrorFlow:defaults"] = {"cls": "MinErrorFlow", "use": []}
    # error scaling 0 (= ignore) while elements_to_ignore is left at its (mutable) default
    ops["MinErrorFlow:scale0"] = {"cls": "MinErrorFlow", "use": ["solver_options"], "extra": {"error_scaling": {("s", "b"): 0}}}
    for cls in ["kMinPathError", "kLeastAbsErrors", "kMinPathErrorCycles", "kLeastAbsErrorsCycles"]:
        ops[f"{cls}:scale0"] = {"cls": cls, "k": 3, "use": ["solver_options"], "extra": {"error_scaling": {("s", "b"): 0}}}
    return ops


OPS = _ops()
REDUCED = [k for k in OPS if k.endswith(":shared") or k.endswith(":superset") or k.endswith(":scaling")]


def _run_abstract_bases(case):
    """the two documented base classes used as the docs describe (a minimal subclass): the caller's max_edge_repetition_dict must
    stay as it was, and two models that rely on the default arguments must not share state"""
    import networkx as nx
    import flowpaths as fp
    viol = []

    class W(fp.AbstractWalkModelDiGraph):
        def __init__(self, G, **kw):
            super().__init__(G=G, k=1, **kw)
            self.create_solver_and_walks()
            self.solver.set_objective(self.solver.quicksum(self.edge_vars[e] for e in self.edge_indexes), sense="minimize")

        def get_solution(self):
            return {"walks": self.get_solution_walks()}

        def get_lowerbound_k(self):
            return 1

        def is_valid_solution(self):
            return True

        def get_objective_value(self):
            return self.solver.get_objective_value()

    class P(fp.AbstractPathModelDAG):
        def __init__(self, G, **kw):
            super().__init__(G=G, k=1, **kw)
            self.create_solver_and_paths()
            self.solver.set_objective(self.solver.quicksum(self.edge_vars[e] for e in self.edge_indexes), sense="minimize")

        def get_solution(self):
            return {"paths": self.get_solution_paths()}

        def get_lowerbound_k(self):
            return 1

        def is_valid_solution(self):
            return True

        def get_objective_value(self):
            return self.solver.get_objective_value()

    G = nx.DiGraph()
    G.add_edges_from([("s", "a"), ("a", "b"), ("b", "a"), ("b", "t")])
    stg = fp.stDiGraph(G)
    caps = {e: 3 for e in stg.edges()}
    before = dict(caps)
    try:
        w1 = W(stg, max_edge_repetition_dict=caps)
        if caps != before:
            viol.append({"kind": "caller_data_mutated", "msg": f"AbstractWalkModelDiGraph.__init__ changed the caller's max_edge_repetition_dict: {sorted((str(k), v) for k, v in caps.items() if before[k] != v)}"})
        w1.solve()
        w2 = W(fp.stDiGraph(G), max_edge_repetition=2)
        if w1.solve_statistics is w2.solve_statistics:
            viol.append({"kind": "global_state_mutated", "msg": "two AbstractWalkModelDiGraph models relying on the default solve_statistics share ONE dict (the second, unsolved model reports the first model's statistics)"})
        D = nx.DiGraph()
        D.add_edges_from([("s", "a"), ("a", "t"), ("s", "t")])
        p1 = P(fp.stDAG(D), optimization_options={"optimize_with_safe_paths": False})
        p1.solve()
        p2 = P(fp.stDAG(D), optimization_options={"optimize_with_safe_paths": False})
        if p1.solve_statistics is p2.solve_statistics:
            viol.append({"kind": "global_state_mutated", "msg": "two AbstractPathModelDAG models relying on the default solve_statistics share ONE dict"})
    except Exception as e:  # noqa
        viol.append({"kind": "exception_on_valid_input", "msg": f"minimal subclass of the abstract base classes raised {common.exc_str(e)}"})
    return {"v": viol, "nt": "abstract_bases" if not viol else None, "tags": {"abstract_bases": 1}, "out": "abstract:" + ("viol" if viol else "ok"), "states": 1, "transitions": 3}


def cases(tier, seed):
    yield {"special": "abstract_bases", "graph": "G1", "history": []}
    names = sorted(OPS)
    for gname in GRAPHS:
        nm = [n for n in names if n not in ("MinFlowDecomp:scan", "MinFlowDecomp:shared_scan")] if gname == "G1" else G2_OPS
        for a in nm:
            yield {"graph": gname, "history": [a]}
        for a, b in itertools.product(nm, repeat=2):
            yield {"graph": gname, "history": [a, b]}
        if tier == "thorough":
            for h in itertools.product(REDUCED if gname == "G1" else G2_OPS, repeat=3):
                yield {"graph": gname, "history": list(h)}


# ---------------------------------------------------------------------------------------------

def _canon(x):
    import networkx as nx
    if isinstance(x, nx.Graph):
        return {"nodes": sorted((str(n), _canon(d)) for n, d in x.nodes(data=True)), "edges": sorted((str(u), str(v), _canon(d)) for u, v, d in x.edges(data=True)),
                "graph": _canon(dict(x.graph))}
    if isinstance(x, dict):
        return sorted((str(_canon(k)), _canon(v)) for k, v in x.items())
    if isinstance(x, (list, tuple)):
        return [_canon(v) for v in x]
    if isinstance(x, (set, frozenset)):
        return sorted(str(_canon(v)) for v in x)
    if isinstance(x, type):
        return x.__name__
    if isinstance(x, (int, float, str, bool)) or x is None:
        return x
    return repr(type(x))


def _model_classes():
    import flowpaths as fp
    import flowpaths.utils.solverwrapper as sw
    names = ["AbstractPathModelDAG", "AbstractWalkModelDiGraph", "kFlowDecomp", "kFlowDecompCycles", "kMinPathError", "kMinPathErrorCycles", "kLeastAbsErrors",
             "kLeastAbsErrorsCycles", "kPathCover", "kPathCoverCycles", "MinFlowDecomp", "MinFlowDecompCycles", "MinPathCover", "MinPathCoverCycles", "MinErrorFlow",
             "MinGenSet", "MinSetCover", "NumPathsOptimization", "stDAG", "stDiGraph", "NodeExpandedDiGraph"]
    return [getattr(fp, n) for n in names] + [sw.SolverWrapper]


def _global_snapshot():
    snap = {}
    for cls in _model_classes():
        init = cls.__dict__.get("__init__")
        if init is not None:
            snap[f"{cls.__name__}.__init__.__defaults__"] = _canon(init.__defaults__)
            snap[f"{cls.__name__}.__init__.__kwdefaults__"] = _canon(init.__kwdefaults__)
        for k, v in cls.__dict__.items():
            if k.startswith("__") or not isinstance(v, (int, float, str, bool, type(None), list, dict, set, tuple)):
                continue
            if k == "_highs_scheduler_threads":
                continue  # mirror of HiGHS' process-global scheduler state (external to the library's semantics)
            snap[f"{cls.__name__}.{k}"] = _canon(v)
    return snap


def _shared_objects(gname):
    gd = GRAPHS[gname]
    case = {"nodes": gd["nodes"], "arcs": gd["arcs"]}
    G = drivers.build_graph(case)
    # node-weighted twin lives on the same graph object: node attribute 'nflow'
    nv = {v: 0 for v in gd["nodes"]}
    for u, v, w in gd["arcs"]:
        nv[v] += w
    for v in gd["nodes"]:
        if nv[v] == 0:
            nv[v] = sum(w for u, x, w in gd["arcs"] if u == v)
        G.nodes[v]["nflow"] = nv[v]
        G.nodes[v]["length"] = 2
    return {
        "G": G,
        "optimization_options": {"optimize_with_greedy": False},
        "solver_options": {"threads": 1},
        "elements_to_ignore": [("a", "b")],
        "subpath_constraints": [[("s", "a"), ("a", "t")]],
        "subset_constraints": [[("s", "a"), ("a", "t")]],
        "error_scaling": {("s", "b"): 0.5},
        "additional_starts": ["a"],
        "additional_ends": ["b"],
        "optimization_options_scan": {"use_subgraph_scanning_lowerbound": True},
    }, case


def _run_op(opname, sh, case):
    import flowpaths as fp
    op = OPS[opname]
    cls = getattr(fp, op["cls"])
    kw = {}
    for name in op["use"]:
        kw[name] = sh[name]
    for name, shared_name in op.get("use_as", {}).items():
        kw[name] = sh[shared_name]
    if "k" in op:
        kw["k"] = op["k"]
    kw.update(copy.deepcopy(op.get("extra", {})))
    cover = op["cls"] in drivers.COVER_CLASSES
    if "solver_options" not in kw:
        pass  # deliberately omitted: the mutable default argument is used
    obs = {"op": opname}
    try:
        if cover:
            m = cls(sh["G"], **kw)
        else:
            m = cls(sh["G"], flow_attr="nflow" if op.get("node") else "flow", **kw)
        r1 = m.solve()
        s1 = m.is_solved()
        obs["solved"] = bool(s1)
        if s1:
            sol1 = copy.deepcopy(m.get_solution())
            o1 = m.get_objective_value() if hasattr(m, "get_objective_value") else None
            r2 = m.solve()
            sol2 = copy.deepcopy(m.get_solution())
            sol3 = copy.deepcopy(m.get_solution())
            o2 = m.get_objective_value() if hasattr(m, "get_objective_value") else None
            rk = "walks" if isinstance(sol1, dict) and "walks" in sol1 else "paths"
            obs["objective"] = None if o1 is None else round(float(o1), 6)
            if isinstance(sol1, dict) and rk in sol1:
                obs["n_routes"] = len(sol1[rk])
            elif isinstance(sol1, dict) and "error" in sol1:
                obs["n_routes"] = round(float(sol1["error"]), 6)
            obs["repeat_ok"] = (bool(r2) == bool(r1)) and (_canon(sol2) == _canon(sol3)) and (o1 == o2) and \
                (_summ(sol1) == _summ(sol2))
            if isinstance(sol1, dict) and rk in sol1 and op["cls"] != "MinErrorFlow":
                ign = sh["elements_to_ignore"] if "elements_to_ignore" in op["use"] else []
                starts = sh["additional_starts"] if "additional_starts" in op["use"] else []
                ends = sh["additional_ends"] if "additional_ends" in op["use"] else []
                errs = preds.route_errors(case, sol1[rk], op["cls"].endswith("Cycles"), starts, ends)
                obs["valid"] = not errs
                if errs:
                    obs["valid_err"] = errs[0]
    except Exception as e:  # noqa
        obs["exc"] = type(e).__name__
        obs["exc_msg"] = str(e)[:120]
    return obs


def _summ(sol):
    if isinstance(sol, dict):
        rk = "walks" if "walks" in sol else ("paths" if "paths" in sol else None)
        if rk:
            return (len(sol[rk]), tuple(round(float(w), 6) for w in sol.get("weights", [])))
        if "error" in sol:
            return round(float(sol["error"]), 6)
    return repr(sol)[:100]


_PRISTINE_GLOBAL = None
_SOLO = {}


def _restore_globals(pristine_objs):
    for (cls, attr), val in pristine_objs.items():
        if attr == "__init__.__defaults__":
            cls.__dict__["__init__"].__defaults__ = copy.deepcopy(val)
        else:
            setattr(cls, attr, copy.deepcopy(val))


def _capture_objs():
    out = {}
    for cls in _model_classes():
        init = cls.__dict__.get("__init__")
        if init is not None:
            out[(cls, "__init__.__defaults__")] = copy.deepcopy(init.__defaults__)
        for k, v in cls.__dict__.items():
            if k.startswith("__") or k == "_highs_scheduler_threads" or not isinstance(v, (int, float, str, bool, type(None), list, dict, set, tuple)):
                continue
            out[(cls, k)] = copy.deepcopy(v)
    return out


def _obs_key(o):
    return json.dumps({k: v for k, v in o.items() if k not in ("exc_msg", "valid_err")}, sort_keys=True, default=str)


def run(case):
    global _PRISTINE_GLOBAL
    if case.get("special") == "abstract_bases":
        return _run_abstract_bases(case)
    viol = []
    tags = collections.Counter()
    hist = case["history"]
    if _PRISTINE_GLOBAL is None:
        _PRISTINE_GLOBAL = (_global_snapshot(), _capture_objs())
    g0, objs0 = _PRISTINE_GLOBAL
    sh, gcase = _shared_objects(case["graph"])
    s0 = _canon({k: v for k, v in sh.items()})
    states = 1
    transitions = 0
    seen_states = {json.dumps([s0, g0], sort_keys=True, default=str)}
    last = None
    try:
        for i, opname in enumerate(hist):
            obs = _run_op(opname, sh, gcase)
            transitions += 1
            last = obs
            s = _canon({k: v for k, v in sh.items()})
            g = _global_snapshot()
            if s != s0:
                diff = [k for k in sh if _canon(sh[k]) != _canon(_shared_objects(case["graph"])[0][k])]
                viol.append({"kind": "caller_data_mutated", "op": opname, "msg": f"after {hist[:i + 1]}: caller objects {diff} were modified by {opname}: now {str({k: _canon(sh[k]) for k in diff})[:300]}"})
            if g != g0:
                diffk = [k for k in g if g[k] != g0.get(k)]
                viol.append({"kind": "global_state_mutated", "op": opname, "msg": f"after {hist[:i + 1]}: library-level state changed: {[(k, g[k]) for k in diffk][:3]}"})
            seen_states.add(json.dumps([s, g], sort_keys=True, default=str))
            if obs.get("solved") and obs.get("repeat_ok") is False:
                viol.append({"kind": "repeated_calls_disagree", "op": opname, "msg": f"{opname}: a second solve()/get_solution()/get_objective_value() returned something different"})
            if obs.get("valid") is False:
                tags["invalid_route_seen"] += 1
            # compare with the same operation from the initial state
            if i > 0:
                sh2, gc2 = _shared_objects(case["graph"])
                # evaluate solo reference lazily (cached per worker); globals restored first
                if (case["graph"], opname) not in _SOLO:
                    _restore_globals(objs0)
                    _SOLO[(case["graph"], opname)] = _run_op(opname, sh2, gc2)
                ref = _SOLO[(case["graph"], opname)]
                if _obs_key(ref) != _obs_key(obs):
                    viol.append({"kind": "history_dependent_result", "op": opname, "prev": hist[i - 1],
                                 "msg": f"{opname} after {hist[:i]} observed { {k: v for k, v in obs.items() if k != 'op'} } but from the initial state { {k: v for k, v in ref.items() if k != 'op'} }"})
            elif (case["graph"], opname) not in _SOLO and not viol:
                _SOLO[(case["graph"], opname)] = obs
    finally:
        _restore_globals(objs0)
    states = len(seen_states)
    nt = None
    if len(hist) >= 2 and last is not None and last.get("solved"):
        nt = "|".join(hist)
    out = "ok" if not viol else "viol"
    return {"v": viol[:4], "nt": nt, "tags": dict(tags), "out": out + ":" + str(last.get("solved") if last else None) + ":" + str(last.get("exc") if last else None),
            "states": states, "transitions": transitions, "traces": 1}
