"""C17 - substrate queries (reachability, antichain, bottleneck peeling) match the graph.

Part A (E-states): per shape, BFS over query histories on the real stDiGraph / stDAG object; the state is the
canonical content of the object's cache fields; every transition (state, query) is executed on a real object
brought to that state by replaying the shortest history, and the answer is compared with a plain search written
here AND with the answer of the same query on a fresh (cold) object.
Part B (E-inputs): compute_max_edge_antichain for every weight function in {0..3}^E (+ one large weight);
decompose_using_max_bottleneck / max_bottleneck_path for every conserving flow of the alphabet."""
import collections
import itertools

from .. import world, drivers, fdworld, common
from .. import oracles as O

SPEC = {
    "id": "C17",
    "level": "model_checking",
    "design_ref": "DESIGN.md section 5, C17",
    "rule": ("Part A: states = canonical cache contents of the s-t graph object (which per-node reachability entries / widths are cached); transitions = (state, query) "
             "for every query of the alphabet {nodes_reachable(v), nodes_reaching(v), is_scc_edge(e), compute_edge_max_reachable_value, get_width(), get_width([e]), "
             "get_number_of_nontrivial_SCCs} (stDiGraph) / {reachable_nodes_from, nodes_reaching, reachable_edges_from, reachable_edges_rev_from, get_width(), get_width([e])} (stDAG), "
             "explored breadth-first to depth d; every transition is replayed on the real object. Part B: every weight function / flow. "
             "non-trivial = distinct (shape, state, query) with a non-empty cache state, plus distinct antichain / peeling instances"),
    "assumptions": ["plain BFS/DFS reachability written in the harness is the reference", "max antichain oracle: all subsets of pairwise unreachable arcs (|E| <= 7 incl. source/sink arcs handled by weight 0)"],
}


def bounds(tier):
    q = tier == "quick"
    return {"depth": 3 if q else 4, "shapes": "W-DIG(n<=4, arcs<=6) + W-NAMED, W-DAG(n<=4)" if q else "W-DIG(n<=4, arcs<=8) + W-NAMED, W-DAG(n<=5, arcs<=7)",
            "antichain_weights": "{0..3}^E for |E|<=4, {0,1,3}^E for |E|=5, plus 10^6 / 2^32-|E| / 2^32+1 / 10^12 on one arc", "peeling": "flows from <=3 paths, weights<=3"}


def cases(tier, seed):
    q = tier == "quick"
    depth = 3 if q else 4
    dig = world.dig_shapes(4, 6 if q else 8) + world.named_shapes() + ([] if q else [x for x in world.dig_shapes(5, 6, selfloops=False) if x[0] == 5])
    seen = set()
    for idx, shp in enumerate(dig):
        if shp in seen:
            continue
        seen.add(shp)
        names, arcs = world.present(shp, seed, idx)
        w = [((i * 7 + 3) % 4) for i in range(len(arcs))]
        yield {"part": "hist_dig", "nodes": names, "arcs": [[u, v, x] for (u, v), x in zip(arcs, w)], "depth": depth if len(arcs) <= 6 else min(depth, 3)}
    for idx, shp in enumerate(world.dag_shapes(4 if q else 5)):
        if len(shp[1]) > 7:
            continue
        names, arcs = world.present(shp, seed, idx)
        yield {"part": "hist_dag", "nodes": names, "arcs": [[u, v, 1 + (i % 3)] for i, (u, v) in enumerate(arcs)], "depth": depth}
        if len(arcs) <= 5:
            yield {"part": "antichain", "nodes": names, "arcs": [[u, v, 1] for (u, v) in arcs]}
        yield {"part": "peel", "nodes": names, "arcs": [[u, v, 1] for (u, v) in arcs]}


def _reach(succ, v):
    seen = {v}
    st = [v]
    while st:
        x = st.pop()
        for y in succ.get(x, ()):
            if y not in seen:
                seen.add(y)
                st.append(y)
    return seen


def run(case):
    import flowpaths as fp
    import networkx as nx
    part = case["part"]
    viol = []
    nt = []
    tags = collections.Counter()
    states = transitions = traces = 0
    V = case["nodes"]
    E = [(a[0], a[1]) for a in case["arcs"]]
    wt = {(a[0], a[1]): a[2] for a in case["arcs"]}
    key = world.shape_key((len(V), tuple(E)))
    G = drivers.build_graph(case)

    if part in ("hist_dig", "hist_dag"):
        dig = part == "hist_dig"
        cls = fp.stDiGraph if dig else fp.stDAG
        probe = cls(G)
        SRC, SNK = probe.source, probe.sink
        succ = collections.defaultdict(list)
        pred = collections.defaultdict(list)
        allE = list(probe.edges())
        for u, v in allE:
            succ[u].append(v)
            pred[v].append(u)
        nodes_all = list(probe.nodes())
        g = O.STGraph(V, E)

        def lbl(x):
            return "S*" if x == SRC else ("T*" if x == SNK else x)

        # alphabet
        queries = []
        if dig:
            for v in V + ["S*"]:
                queries.append(("nodes_reachable", v))
                queries.append(("nodes_reaching", v))
            for e in E[:3]:
                queries.append(("is_scc_edge", list(e)))
                if len(E) >= 2:  # width is specified only while at least one arc remains (C09)
                    queries.append(("get_width_ign", list(e)))
            if len(E) >= 2:
                for e in E:
                    queries.append(("get_width_ign_dup", list(e)))   # the same arc listed twice in edges_to_ignore
            queries += [("max_reachable",), ("get_width",), ("n_sccs",)]
        else:
            for nm in ("reachable_nodes_from", "nodes_reaching", "reachable_edges_from", "reachable_edges_rev_from"):
                queries.append((nm,))
            for e in E[:3]:
                if len(E) >= 2:
                    queries.append(("get_width_ign", list(e)))
            if len(E) >= 2:
                queries.append(("get_width_ign_dup", list(E[0])))
            queries += [("get_width",), ("get_width_ign_all",)]   # every arc ignored: nothing has to be covered

        def fresh(st_obj=None):
            return cls(G)

        def ask(obj, q):
            def lb(x):
                return "S*" if x == obj.source else ("T*" if x == obj.sink else x)

            def real(x):
                return obj.source if x == "S*" else (obj.sink if x == "T*" else x)
            k = q[0]
            if k == "nodes_reachable":
                return sorted(lb(x) for x in obj.nodes_reachable(real(q[1])))
            if k == "nodes_reaching":
                if dig:
                    return sorted(lb(x) for x in obj.nodes_reaching(real(q[1])))
                return {lb(v): sorted(lb(x) for x in s) for v, s in obj.nodes_reaching.items()}
            if k == "is_scc_edge":
                return bool(obj.is_scc_edge(*q[1]))
            if k == "max_reachable":
                return {f"{lb(u)}>{lb(v)}": float(x) for (u, v), x in obj.compute_edge_max_reachable_value("flow").items()}
            if k == "get_width":
                return obj.get_width()
            if k == "get_width_ign":
                return obj.get_width(list(obj.source_sink_edges) + [tuple(q[1])])
            if k == "get_width_ign_dup":
                return obj.get_width(list(obj.source_sink_edges) + [tuple(q[1]), tuple(q[1])])
            if k == "get_width_ign_all":
                return obj.get_width(list(obj.source_sink_edges) + [tuple(e) for e in E])
            if k == "n_sccs":
                return obj.get_number_of_nontrivial_SCCs()
            if k == "reachable_nodes_from":
                return {lb(v): sorted(lb(x) for x in s) for v, s in obj.reachable_nodes_from.items()}
            if k == "reachable_edges_from":
                return {lb(v): sorted((lb(a), lb(b)) for a, b in s) for v, s in obj.reachable_edges_from.items()}
            if k == "reachable_edges_rev_from":
                return {lb(v): sorted((lb(a), lb(b)) for a, b in s) for v, s in obj.reachable_edges_rev_from.items()}
            raise ValueError(k)

        def real(x):
            return SRC if x == "S*" else (SNK if x == "T*" else x)

        def oracle(q):
            k = q[0]
            if k == "nodes_reachable":
                return sorted(lbl(x) for x in _reach(succ, real(q[1])))
            if k == "nodes_reaching" and dig:
                return sorted(lbl(x) for x in _reach(pred, real(q[1])))
            if k == "nodes_reaching":
                return {lbl(v): sorted(lbl(x) for x in _reach(pred, v)) for v in nodes_all}
            if k == "is_scc_edge":
                u, v = q[1]
                return u in _reach(succ, v)
            if k == "max_reachable":
                out = {}
                for (u, v) in allE:
                    fw = _reach(succ, v)
                    bw = _reach(pred, u)
                    best = float(probe[u][v].get("flow", 0))
                    for (x, y) in allE:
                        if x in fw or y in bw:
                            best = max(best, float(probe[x][y].get("flow", 0)))
                    out[f"{lbl(u)}>{lbl(v)}"] = best
                return out
            if k == "get_width":
                return O.min_cover(g, list(E))
            if k in ("get_width_ign", "get_width_ign_dup"):
                return O.min_cover(g, [e for e in E if e != tuple(q[1])])
            if k == "get_width_ign_all":
                return 0
            if k == "n_sccs":
                comps = set()
                for v in nodes_all:
                    c = frozenset(_reach(succ, v) & _reach(pred, v))
                    if len(c) > 1 or any((x, x) in allE for x in c):
                        comps.add(c)
                return len(comps)
            if k == "reachable_nodes_from":
                return {lbl(v): sorted(lbl(x) for x in _reach(succ, v)) for v in nodes_all}
            if k == "reachable_edges_from":
                return {lbl(v): sorted((lbl(a), lbl(b)) for a, b in allE if a in _reach(succ, v)) for v in nodes_all}
            if k == "reachable_edges_rev_from":
                return {lbl(v): sorted((lbl(a), lbl(b)) for a, b in allE if b in _reach(pred, v)) for v in nodes_all}
            raise ValueError(k)

        def cache_state(obj):
            if dig:
                lb = lambda x: "S*" if x == obj.source else ("T*" if x == obj.sink else x)  # noqa
                return (tuple(sorted(lb(x) for x in obj._nodes_reachable_from_node_cache)), tuple(sorted(lb(x) for x in obj._nodes_reaching_node_cache)),
                        obj.condensation_width)
            return (obj._reachable_nodes_from is not None, obj._reachable_edges_from is not None, obj._nodes_reaching is not None,
                    obj._reachable_edges_rev_from is not None, obj.width)

        expected = {}
        for q in queries:
            expected[str(q)] = oracle(q)
        init = fresh()
        seen_states = {cache_state(init): []}
        frontier = collections.deque([[]])
        while frontier:
            hist = frontier.popleft()
            if len(hist) >= case["depth"]:
                continue
            for q in queries:
                obj = fresh()
                for h in hist:
                    ask(obj, h)
                s_before = cache_state(obj)
                try:
                    ans = ask(obj, q)
                except Exception as ex:
                    viol.append({"kind": "query_exception", "msg": f"{cls.__name__}: after {hist}: {q} raised {common.exc_str(ex)}"})
                    continue
                transitions += 1
                traces += 1
                if ans != expected[str(q)]:
                    kind = "query_wrong_cold" if not hist else "query_wrong_after_history"
                    viol.append({"kind": kind, "msg": f"{cls.__name__}: after history {hist}: {q} answered {str(ans)[:200]}, plain search gives {str(expected[str(q)])[:200]}"})
                elif hist:
                    nt.append(f"{key}|{s_before}|{q}")
                s_after = cache_state(obj)
                if s_after not in seen_states:
                    seen_states[s_after] = hist + [q]
                    frontier.append(hist + [q])
                if len(viol) > 4:
                    break
            if len(viol) > 4:
                break
        states = len(seen_states)
        tags[f"{part}:states"] += states

    elif part == "antichain":
        st = fp.stDAG(G)
        g = O.STGraph(V, E)
        alpha = (0, 1, 2, 3) if len(E) <= 4 else (0, 1, 3)
        reach = {v: g.reach_fwd(v) for v in V}
        vecs = list(itertools.product(alpha, repeat=len(E))) + [tuple(10 ** 6 if i == 0 else 1 for i in range(len(E)))]
        # "large weights": one arc heavier than the constant 2^32 the min-cost-flow reduction uses as capacity / supply (known finding AC-2POW32)
        vecs += [tuple(big if i == j else 1 for i in range(len(E))) for big in (2 ** 32 - len(E), 2 ** 32 + 1, 10 ** 12) for j in (0, len(E) - 1)]
        for wv in vecs:
            wf = {e: x for e, x in zip(E, wv)}
            try:
                val, ac = st.compute_max_edge_antichain(get_antichain=True, weight_function=dict(wf))
                val2 = st.compute_max_edge_antichain(get_antichain=False, weight_function=dict(wf))
            except Exception as ex:
                viol.append({"kind": "antichain_exception", "total_weight": sum(wv), "msg": f"weights {wf}: {common.exc_str(ex)}"})
                continue
            tags["antichain"] += 1
            best = 0
            for r in range(1, len(E) + 1):
                for sub in itertools.combinations(E, r):
                    if all(not (b[0] in reach[a[1]] or a[0] in reach[b[1]]) for a, b in itertools.combinations(sub, 2)):
                        best = max(best, sum(wf[e] for e in sub))
            acs = [tuple(e) for e in ac]
            errs = []
            if any(e not in E for e in acs):
                errs.append(f"antichain {acs} contains non-base arcs")
            elif any((b[0] in reach[a[1]] or a[0] in reach[b[1]]) for a, b in itertools.combinations(acs, 2)):
                errs.append(f"antichain {acs} contains two arcs on a common path")
            elif sum(wf[e] for e in acs) != val or val != val2:
                errs.append(f"antichain {acs} has weight {sum(wf[e] for e in acs)} but reported optimum {val} / {val2}")
            elif val != best:
                errs.append(f"reported maximum antichain weight {val}, brute force {best}")
            if errs:
                viol.append({"kind": "antichain_wrong", "total_weight": sum(wv), "msg": f"weights {wf}: {errs[0]}"})
            elif len(acs) >= 2:
                nt.append(f"{key}|ac|{wv}")
            if len([x for x in viol if x.get('total_weight', 0) <= 2 ** 32]) > 4:
                break

    elif part == "peel":
        from flowpaths.utils import graphutils as gu
        g, paths = fdworld.dag_routes(V, E)
        pa = [O.path_arcs(p) for p in paths]
        flows = fdworld.fd_flows(pa, E, 3, 3)
        for fv in sorted(flows):
            c2 = dict(case, arcs=[[u, v, x] for (u, v), x in zip(E, fv)])
            st = fp.stDAG(drivers.build_graph(c2))
            try:
                ps, ws = st.decompose_using_max_bottleneck("flow")
            except Exception as ex:
                viol.append({"kind": "peel_exception", "msg": f"flow {fv}: {common.exc_str(ex)}"})
                continue
            tags["peel"] += 1
            amt = collections.Counter()
            errs = []
            for p, w in zip(ps, ws):
                if p[0] not in g.starts or p[-1] not in g.ends or any(e not in E for e in zip(p[:-1], p[1:])):
                    errs.append(f"{p} is not a source-to-sink path")
                if w <= 0:
                    errs.append(f"path {p} has weight {w}")
                for e in zip(p[:-1], p[1:]):
                    amt[e] += w
            if not errs and any(amt[e] != x for e, x in zip(E, fv)):
                errs.append(f"path weights add up to {dict(amt)}, flow is {dict(zip(E, fv))}")
            # first peeled path must be a maximum bottleneck path
            if not errs and ps:
                bmax = max(min(fv[E.index(e)] for e in p) for p in pa)
                if ws[0] != bmax:
                    errs.append(f"first peeled bottleneck {ws[0]}, the maximum bottleneck over all paths is {bmax}")
            if errs:
                viol.append({"kind": "peel_wrong", "msg": f"flow {dict(zip(E, fv))}: {errs[0]}", "paths": ps, "weights": ws})
            elif len(ps) >= 2:
                nt.append(f"{key}|peel|{fv}")
            if len(viol) > 4:
                break
    seen = collections.Counter()
    out = []
    for v in viol:
        seen[v["kind"]] += 1
        if seen[v["kind"]] <= 2:
            out.append(v)
    return {"v": out, "nt": nt, "tags": dict(tags), "out": f"{part}:{'viol' if viol else 'ok'}", "states": states, "transitions": transitions, "traces": traces}
