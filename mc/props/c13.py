"""C13 - solved means proven optimal; inconclusive solver runs never yield an answer.

E-faults: for every target (model class + instance whose search needs 1..4 solver invocations) the fault-free run
records the sequence of solver invocations; then EVERY plan with one injected deviation (position x non-conclusive
status x solver ran / did not run x native / custom-timeout) is executed, then all plans with two deviations (thorough)."""
import collections
import itertools
import math

from .. import world, drivers, preds, faults, fdworld, common
from .. import oracles as O

SPEC = {
    "id": "C13",
    "level": "fault_enumeration",
    "design_ref": "DESIGN.md section 5, C13",
    "rule": ("cases = targets (class, instance, options) chosen so that the minimum search needs 1, 2, 3 (and 4) main-loop solver invocations "
             "(gap between lower bound and optimum 0, 1, 2), plus every k-model, MinErrorFlow (+epsilon: two solves), MinSetCover, MinGenSet and "
             "NumPathsOptimization with each stop rule, plus every k-model class, MinGenSet, MinSetCover and the minimum flow decompositions with solve() called twice on one object; inside a case: the fault-free run, then every single-deviation plan "
             "(position x {kTimeLimit, kInterrupt, kUnknown, kSolutionLimit, kUnboundedOrInfeasible, kIterationLimit} x {solver ran, did not run} + custom-timeout flag), "
             "then (thorough) every two-deviation plan; non-trivial = distinct (target, plan) whose injected deviation was actually consumed by an invocation"),
    "assumptions": ["the library observes the solver only through SolverWrapper.optimize / get_model_status / value getters, so call granularity is complete",
                    "custom timeout modelled by invoking the wrapper's own _timeout_handler while optimize() is on the stack",
                    "Gurobi backend not installed: not covered"],
}


def bounds(tier):
    return {"targets": "see rule; instances drawn from W-DAG(4) flows / cyclic W-DIG(4,5) flows by gap", "deviations_per_plan": 1 if tier == "quick" else 2,
            "statuses": faults.STATUSES + ["kTimeLimit via custom-timeout flag"]}


def _gap_instances_dag(seed, want=(0, 1, 2), per=2):
    found = collections.defaultdict(list)
    for idx, shp in enumerate(world.dag_shapes(4)):
        names, arcs = world.present(shp, seed, idx)
        g, paths = fdworld.dag_routes(names, arcs)
        pa = [O.path_arcs(p) for p in paths]
        flows = fdworld.fd_flows(pa, arcs, 3, 3)
        cols = [[1 if e in p else 0 for e in arcs] for p in pa]
        for fv in sorted(flows):
            opt, _ = O.min_decomp(cols, list(fv), "int")
            width = O.min_cover(g, list(arcs))
            lb = max(width, math.ceil(math.log2(len(set(fv)))) if len(set(fv)) > 1 else 1, 1)
            gap = opt - lb
            if gap in want and len(found[gap]) < per and len(arcs) >= 3 and opt < len(arcs):
                found[gap].append({"nodes": names, "arcs": [[u, v, w] for (u, v), w in zip(arcs, fv)], "opt": opt})
        if all(len(found[g_]) >= per for g_ in want):
            break
    return found


def _gap_instances_cyc(seed, want=(0, 1), per=2):
    from .c04 import _flows
    found = collections.defaultdict(list)
    for idx, shp in enumerate(world.cyclic_shapes(4, 5)):
        names, arcs = world.present(shp, seed, idx)
        g = O.STGraph(names, arcs)
        for fv in _flows(names, arcs, 2, 2, 2, 4):
            f = dict(zip(g.arcs, fv))
            vecs = sorted(set(v for v, _, _ in O.walk_vectors(g, f)))
            opt, _ = O.min_decomp([list(v) for v in vecs], list(fv), "int")
            width = O.min_cover(g, list(g.arcs))
            gap = opt - width
            if gap in want and len(found[gap]) < per:
                found[gap].append({"nodes": names, "arcs": [[u, v, w] for (u, v), w in zip(arcs, fv)], "opt": opt})
        if all(len(found[g_]) >= per for g_ in want):
            break
    return found


HAND_DAG = {
    0: [{"nodes": ["s", "a", "b", "t"], "arcs": [["s", "a", 2], ["a", "t", 2], ["s", "b", 3], ["b", "t", 3]], "opt": 2}],
    # width 2 but three paths are needed (found by brute force over W-DAG(5))
    1: [{"nodes": ["a", "e", "d", "c", "b"], "arcs": [["a", "d", 2], ["e", "d", 2], ["d", "c", 1], ["d", "b", 3]], "opt": 3}],
    # two disjoint copies of the previous instance: width 4, six paths needed
    2: [{"nodes": ["a", "e", "d", "c", "b", "x", "y", "z", "u", "v"],
         "arcs": [["a", "d", 2], ["e", "d", 2], ["d", "c", 1], ["d", "b", 3], ["x", "z", 2], ["y", "z", 2], ["z", "u", 1], ["z", "v", 3]], "opt": 6}],
}


def cases(tier, seed):
    q = tier == "quick"
    dev = 1 if q else 2
    dag = _gap_instances_dag(seed)
    for gp, lst in HAND_DAG.items():
        dag[gp] = list(dag.get(gp, [])) + lst
    for gap, insts in sorted(dag.items()):
        for inst in insts:
            for oo in ({"optimize_with_greedy": False}, {"optimize_with_greedy": False, "use_min_gen_set_lowerbound": True},
                       {"optimize_with_greedy": False, "optimize_with_guessed_weights": True}):
                yield dict(inst, target="MinFlowDecomp", cls="MinFlowDecomp", kw={"weight_type": "int", "optimization_options": oo}, gap=gap, dev=dev)
            yield dict(inst, target="kFlowDecomp", cls="kFlowDecomp", kw={"weight_type": "int", "k": inst["opt"], "optimization_options": {"optimize_with_greedy": False}}, dev=dev)
            yield dict(inst, target="kMinPathError", cls="kMinPathError", kw={"weight_type": "int", "k": inst["opt"]}, dev=dev)
            yield dict(inst, target="kLeastAbsErrors", cls="kLeastAbsErrors", kw={"weight_type": "float", "k": 2}, dev=dev)
            yield dict(inst, target="MinErrorFlow", cls="MinErrorFlow", kw={"weight_type": "int"}, perturb=True, dev=dev)
            yield dict(inst, target="MinErrorFlow+eps", cls="MinErrorFlow", kw={"weight_type": "int", "few_flow_values_epsilon": 0.5}, perturb=True, dev=dev)
            for stop in ({"stop_on_first_feasible": True}, {"stop_on_delta_abs": 1}, {"stop_on_delta_rel": 0.5}):
                for inner in ("kMinPathError", "kLeastAbsErrors"):
                    yield dict(inst, target=f"NumPathsOptimization({inner},{list(stop)[0]})", cls="NumPathsOptimization", inner=inner, stop=stop, perturb=True, dev=dev)
    cyc = _gap_instances_cyc(seed)
    for gap, insts in sorted(cyc.items()):
        for inst in insts:
            for oo in ({}, {"use_min_gen_set_lowerbound": True}, {"optimize_with_guessed_weights": True}):
                yield dict(inst, target="MinFlowDecompCycles", cls="MinFlowDecompCycles", kw={"weight_type": "int", "optimization_options": oo}, gap=gap, dev=dev)
            yield dict(inst, target="kFlowDecompCycles", cls="kFlowDecompCycles", kw={"weight_type": "int", "k": inst["opt"]}, dev=dev)
            yield dict(inst, target="kMinPathErrorCycles", cls="kMinPathErrorCycles", kw={"weight_type": "int", "k": inst["opt"]}, dev=dev)
            yield dict(inst, target="kLeastAbsErrorsCycles", cls="kLeastAbsErrorsCycles", kw={"weight_type": "int", "k": 1}, dev=dev)
    # covers: constraints push the optimum above the width (several main-loop invocations)
    cov = 0
    for idx, shp in enumerate(world.dag_shapes(4)):
        names, arcs = world.present(shp, seed, idx)
        g, paths = fdworld.dag_routes(names, arcs)
        contig, noncontig = fdworld.dag_constraints(paths, 2)
        width = O.min_cover(g, list(arcs))
        cons = contig + noncontig
        for c1, c2 in itertools.combinations(cons, 2):
            opt = O.min_cover_constrained(g, list(arcs), [c1, c2])
            if opt is not None and opt - width >= 1:
                yield {"nodes": names, "arcs": [[u, v, 1] for u, v in arcs], "target": "MinPathCover", "cls": "MinPathCover",
                       "kw": {"subpath_constraints": [[list(e) for e in c1], [list(e) for e in c2]]}, "opt": opt, "gap": opt - width, "dev": dev}
                cov += 1
                break
        if cov >= 3:
            break
    cov = 0
    for idx, shp in enumerate(world.cyclic_shapes(4, 5)):
        names, arcs = world.present(shp, seed, idx)
        g = O.STGraph(names, arcs)
        width = O.min_cover(g, list(g.arcs))
        yield {"nodes": names, "arcs": [[u, v, 1] for u, v in arcs], "target": "MinPathCoverCycles", "cls": "MinPathCoverCycles", "kw": {}, "opt": width, "gap": 0, "dev": dev}
        yield {"nodes": names, "arcs": [[u, v, 1] for u, v in arcs], "target": "kPathCoverCycles", "cls": "kPathCoverCycles", "kw": {"k": width}, "opt": width, "dev": dev}
        cov += 1
        if cov >= 3:
            break
    # solve() called twice on the same object (every k-model class): a deviation in the second run must leave the model unsolved
    rs_dag = HAND_DAG[1][0]
    for cls_, kw_ in (("kFlowDecomp", {"weight_type": "int", "k": 3, "optimization_options": {"optimize_with_greedy": False}}), ("kMinPathError", {"weight_type": "int", "k": 3}),
                      ("kLeastAbsErrors", {"weight_type": "int", "k": 2}), ("kPathCover", {"k": 2})):
        yield dict(rs_dag, target=cls_ + "/solve-twice", cls=cls_, kw=kw_, dev=dev, resolve=True)
    for gap, insts in sorted(cyc.items()):
        for inst in insts[:1]:
            for cls_, kw_ in (("kFlowDecompCycles", {"weight_type": "int", "k": inst["opt"]}), ("kMinPathErrorCycles", {"weight_type": "int", "k": inst["opt"]}),
                              ("kLeastAbsErrorsCycles", {"weight_type": "int", "k": 1}), ("kPathCoverCycles", {"k": inst["opt"]})):
                yield dict(inst, target=cls_ + "/solve-twice", cls=cls_, kw=kw_, dev=dev, resolve=True)
    for nums, total in (([1, 2, 4], 7), ([1, 2, 3, 7], 13), ([3], 5), ([2, 5], 7)):
        yield {"target": "MinGenSet", "cls": "MinGenSet", "numbers": nums, "total": total, "dev": dev}
        yield {"target": "MinGenSet/solve-twice", "cls": "MinGenSet", "numbers": nums, "total": total, "dev": dev, "resolve": True}
    # ... and the minimum searches solved twice (state kept between the two runs must not let the second run skip a k)
    yield dict(HAND_DAG[1][0], target="MinFlowDecomp/solve-twice", cls="MinFlowDecomp", kw={"weight_type": "int", "optimization_options": {"optimize_with_greedy": False}}, gap=1, dev=dev, resolve=True)
    for gap, insts in sorted(cyc.items()):
        for inst in insts[:1]:
            yield dict(inst, target="MinFlowDecompCycles/solve-twice", cls="MinFlowDecompCycles", kw={"weight_type": "int"}, gap=gap, dev=dev, resolve=True)
    yield dict(HAND_DAG[1][0], target="MinErrorFlow/solve-twice", cls="MinErrorFlow", kw={"weight_type": "int"}, perturb=True, dev=dev, resolve=True)
    yield dict(HAND_DAG[1][0], target="MinErrorFlow+eps/solve-twice", cls="MinErrorFlow", kw={"weight_type": "int", "few_flow_values_epsilon": 0.5}, perturb=True, dev=dev, resolve=True)
    # (a large optimum error: the second-stage objective - the number of distinct flow values - is far below it)
    yield {"nodes": ["s", "a", "t"], "arcs": [["s", "a", 0], ["a", "t", 100]], "target": "MinErrorFlow+eps(0,100)/solve-twice", "cls": "MinErrorFlow",
           "kw": {"weight_type": "int", "few_flow_values_epsilon": 0.5}, "dev": dev, "resolve": True}
    yield dict(HAND_DAG[1][0], target="MinPathCover/solve-twice", cls="MinPathCover", kw={}, gap=0, dev=dev, resolve=True)
    yield {"target": "MinSetCover/solve-twice", "cls": "MinSetCover", "universe": [0, 1, 2], "subsets": [[0, 1], [1, 2], [0], [2]], "weights": [2, 2, 1, 1], "dev": dev, "resolve": True}
    yield {"target": "MinSetCover", "cls": "MinSetCover", "universe": [0, 1, 2], "subsets": [[0, 1], [1, 2], [0], [2]], "weights": [2, 2, 1, 1], "dev": dev}


def _execute(case, plan):
    """run the target under the plan; returns observation dict"""
    import flowpaths as fp
    obs = {"exc": None, "solved": None, "objective": None, "sol": None, "getter_raises": None, "pre_solve_raises": None}
    with faults.Injector(plan) as inj:
        try:
            cls = case["cls"]
            if cls == "MinGenSet":
                m = fp.MinGenSet(list(case["numbers"]), total=case["total"], weight_type=int, solver_options={"threads": 1})
            elif cls == "MinSetCover":
                m = fp.MinSetCover(case["universe"], case["subsets"], subset_weights=case["weights"], solver_options={"threads": 1})
            elif cls == "NumPathsOptimization":
                G = drivers.build_graph(_perturbed(case))
                m = fp.NumPathsOptimization(model_type=getattr(fp, case["inner"]), min_num_paths=1, max_num_paths=4, G=G, flow_attr="flow",
                                            weight_type=int, solver_options={"threads": 1}, **case["stop"])
            else:
                m = drivers.construct(_perturbed(case) if case.get("perturb") else case)
            # getters before solve must raise
            pre = []
            for name in ("get_solution", "get_objective_value"):
                if hasattr(m, name):
                    try:
                        getattr(m, name)()
                        pre.append(name)
                    except Exception:
                        pass
            obs["pre_solve_returned"] = pre
            r = m.solve()
            obs["calls_first_solve"] = len(inj.calls)
            if case.get("resolve"):
                # history extension: the same object is solved again; what counts is the LAST run ("the current model")
                obs["first_solve"] = (bool(r), bool(m.is_solved()))
                if m.is_solved():
                    # the user looks at the first answer (this is what fills the models' solution caches)
                    m.get_solution()
                    if hasattr(m, "get_objective_value"):
                        m.get_objective_value()
                r = m.solve()
            obs["solve_ret"] = bool(r)
            obs["solved"] = bool(m.is_solved())
            if obs["solved"]:
                obs["sol"] = m.get_solution()
                obs["objective"] = m.get_objective_value() if hasattr(m, "get_objective_value") else None
                if cls == "NumPathsOptimization":
                    inner = m.model
                    obs["inner_status"] = inner.solver.get_model_status()
                    obs["inner_forced"] = getattr(inner.solver, "_forced_status", None) is not None or bool(getattr(inner.solver, "did_timeout", False))
                    obs["inner_k"] = inner.k
            else:
                ret = []
                for name in ("get_solution", "get_objective_value"):
                    if hasattr(m, name):
                        try:
                            getattr(m, name)()
                            ret.append(name)
                        except Exception:
                            pass
                obs["post_fail_returned"] = ret
        except SystemExit as e:
            obs["exc"] = f"SystemExit({e.code})"
        except Exception as e:  # noqa
            obs["exc"] = common.exc_str(e)
        obs["calls"] = inj.calls
        obs["consumed"] = inj.consumed
    return obs


def _perturbed(case):
    if not case.get("perturb"):
        return case
    arcs = [list(a) for a in case["arcs"]]
    arcs[0][2] = arcs[0][2] + 1
    return dict(case, arcs=arcs)


def _summary(case, obs):
    """solution-independent summary of a solved observation"""
    if not obs["solved"]:
        return None
    sol = obs["sol"]
    cls = case["cls"]
    if cls == "MinGenSet":
        return ("size", len(sol))
    if cls == "MinSetCover":
        return ("weight", sum(case["weights"][i] for i in sol))
    if cls == "MinErrorFlow":
        return ("error", round(float(sol["error"]), 6))
    if isinstance(sol, dict):
        rk = "walks" if "walks" in sol else "paths"
        obj = obs["objective"]
        return ("obj", round(float(obj), 6) if obj is not None else None, "n", len(sol.get(rk, [])) if cls.startswith("Min") or cls == "NumPathsOptimization" else None)
    return ("?",)


def run(case):
    viol = []
    nt = []
    tags = collections.Counter()
    base = _execute(case, {})
    tgt = case["target"]
    if base["exc"]:
        viol.append({"kind": "fault_free_run_failed", "msg": f"{tgt}: fault-free run: exc={base['exc']} solved={base['solved']}"})
        return _ret(viol, nt, tags)
    if not base["solved"] and case.get("resolve") and base.get("first_solve") == (True, True):
        viol.append({"kind": "second_solve_loses_answer", "msg": f"{tgt}: fault-free history solve(); getters; solve(): the first solve() is optimal, after the second one the model is unsolved"})
        return _ret(viol, nt, tags)
    if not base["solved"]:
        # e.g. NumPathsOptimization whose stop rule is not met within max_num_paths: nothing to compare under faults,
        # but the getters must still refuse to return data
        tags["fault_free_unsolved_target"] += 1
        if base.get("post_fail_returned"):
            viol.append({"kind": "getter_returned_data_when_unsolved", "msg": f"{tgt}: fault-free run not solved, but {base['post_fail_returned']} returned data"})
        return _ret(viol, nt, tags)
    if base.get("pre_solve_returned"):
        viol.append({"kind": "getter_before_solve_returned", "msg": f"{tgt}: {base['pre_solve_returned']} returned data before solve()"})
    ref = _summary(case, base)
    ncalls = len(base["calls"])
    tags[f"invocations={ncalls}"] += 1
    main_owner = base["calls"][-1]["owner"]
    # the last invocation of the fault-free run is the main-loop invocation that produced the answer (k*)
    kstar = base["calls"][-1]["k"]
    devs = faults.deviations("quick")
    plans = [{p: d} for p in range(ncalls) for d in devs]
    if case.get("dev", 1) >= 2 and ncalls >= 2:
        for p1, p2 in itertools.combinations(range(ncalls), 2):
            for d1 in devs[::3]:
                for d2 in devs[::4]:
                    plans.append({p1: d1, p2: d2})
    from .. import runner
    for plan in plans:
        runner.kick()  # the watchdog bounds one plan (the thorough tier runs thousands of plans in a case)
        obs = _execute(case, plan)
        tags["plans"] += 1
        ctx = f"{tgt} plan={ {p: (d[0], 'ran' if d[1] else 'not-run', d[2]) for p, d in plan.items()} }"
        if obs["exc"]:
            kind = "system_exit" if obs["exc"].startswith("SystemExit") else "exception_under_fault"
            viol.append({"kind": kind, "msg": f"{ctx}: {obs['exc']}", "calls": obs["calls"]})
            continue
        if not obs["consumed"]:
            continue
        for st in set(d[0] if d[2] == "native" else "custom" for d in plan.values()):
            tags[f"consumed:{st}"] += 1
        nt.append(f"{tgt}|{case.get('nodes')}|{case.get('arcs')}|{case.get('kw')}|{sorted(plan.items())}")
        if obs["solved"]:
            cur = _summary(case, obs)
            if cur != ref and case["cls"] != "NumPathsOptimization":
                viol.append({"kind": "non_optimal_answer_after_inconclusive_run", "msg": f"{ctx}: solved with {cur}, the fault-free optimum is {ref}", "calls": obs["calls"]})
                continue
            # a consumed deviation on a main-loop invocation at k <= k* must stop the search
            for n in obs["consumed"]:
                c = obs["calls"][n]
                if case.get("resolve") and n < obs.get("calls_first_solve", 0):
                    # the deviation hit the first solve() only; the second, clean solve() legitimately proves optimality
                    # (its answer was compared with the fault-free optimum above)
                    tags["resolve:first_run_faulted_second_clean"] += 1
                    continue
                if case.get("resolve") and case["cls"] in ("MinFlowDecomp", "MinFlowDecompCycles", "MinPathCover", "MinPathCoverCycles", "MinGenSet"):
                    # second run of a minimum search faulted: these classes keep the proven optimum of the first run (is_solved() stays True);
                    # what the property forbids - a larger answer - is excluded by the comparison with the fault-free optimum above
                    tags["resolve:second_run_faulted_first_answer_kept"] += 1
                    continue
                if case["cls"] in ("MinFlowDecomp", "MinFlowDecompCycles", "MinPathCover", "MinPathCoverCycles", "MinGenSet"):
                    is_main = c["owner"] == main_owner and not _is_aux(case, obs["calls"], n)
                    if is_main and c["k"] is not None and kstar is not None and c["k"] <= kstar:
                        viol.append({"kind": "search_continued_after_inconclusive_run", "msg": f"{ctx}: invocation {n} ({c['owner']}, k={c['k']}) ended inconclusive but the search went on and reported solved", "calls": obs["calls"]})
                        break
                elif case["cls"] == "NumPathsOptimization":
                    if obs.get("inner_forced") or obs.get("inner_status") != "kOptimal":
                        viol.append({"kind": "numpaths_returned_unproven_model", "msg": f"{ctx}: returned model (k={obs.get('inner_k')}) has status {obs.get('inner_status')} / was the faulted run", "calls": obs["calls"]})
                        break
                else:
                    # single-solve models: a consumed deviation on their only / deciding invocation must not be 'solved'
                    viol.append({"kind": "solved_after_inconclusive_run", "msg": f"{ctx}: model reports solved although its solver run {n} ended inconclusive", "calls": obs["calls"]})
                    break
        else:
            if obs.get("post_fail_returned"):
                viol.append({"kind": "getter_returned_data_when_unsolved", "msg": f"{ctx}: not solved, but {obs['post_fail_returned']} returned data instead of raising", "calls": obs["calls"]})
    return _ret(viol, nt, tags)


def _is_aux(case, calls, n):
    """auxiliary invocations: the guessed-weights model of MinFlowDecomp(.Cycles) is the first kFlowDecomp(Cycles) call when the option is on"""
    oo = (case.get("kw") or {}).get("optimization_options") or {}
    if oo.get("optimize_with_guessed_weights"):
        owner = calls[n]["owner"]
        first = [i for i, c in enumerate(calls) if c["owner"] == owner]
        return bool(first) and first[0] == n
    return False


def _ret(viol, nt, tags):
    seen = collections.Counter()
    out = []
    for v in viol:
        seen[v["kind"]] += 1
        if seen[v["kind"]] <= 2:
            out.append(v)
    return {"v": out, "nt": nt, "tags": dict(tags), "out": "viol:" + ",".join(sorted(seen)) if viol else "ok"}
