"""C02 - flow decompositions explain every non-ignored edge's flow exactly; weights have the requested type."""
import collections
import itertools

from .. import world, drivers, preds, sweep, common

SPEC = {
    "id": "C02",
    "level": "exploration",
    "design_ref": "DESIGN.md section 5, C02",
    "rule": ("cases = (kFlowDecomp, MinFlowDecomp, kFlowDecompCycles, MinFlowDecompCycles) x (instance: every shape of the world with up to 3 flows); inside: weight type x origin "
             "(edge / node twin, incl. one node without the attribute) x ignored sets (none, each single arc with kept / perturbed value, one pair) x constraint x route "
             "{greedy, MILP (greedy off), given weights (solution_weights_superset / optimize_with_guessed_weights), k = optimum and optimum+1} x solver values shifted by -/+ 5e-10 (within tolerance); judged: for every non-ignored arc (node) "
             "sum_i weight_i x traversals_i == input value (exact for int, 1e-6 for float), ints are Python ints. The route actually taken is read from the model and counted. "
             "non-trivial = distinct (class, instance, configuration) solved with >= 2 routes or a route repeating a node"),
    "assumptions": ["float tolerance: abs 1e-6 + rel 1e-6 (the wrapper sets HiGHS tolerances to 1e-9)"],
}

FD = ["kFlowDecomp", "MinFlowDecomp", "kFlowDecompCycles", "MinFlowDecompCycles"]


def bounds(tier):
    q = tier == "quick"
    return {"dag": "W-DAG(n<=4) x 3 flows" if q else "W-DAG(n<=5, arcs<=6) x 3 flows", "cyclic": "cyclic W-DIG(n<=4, arcs<=5)+named x 3 flows" if q else "cyclic W-DIG(n<=4, arcs<=6)+W-NAMED x 3 flows"}


def cases(tier, seed):
    for inst in sweep.dag_instances(tier, seed, per_shape=3):
        for cls in FD[:2]:
            yield dict(inst, cls=cls)
        yield dict(inst, cls="MinFlowDecompCycles")  # a DAG given to the cyclic class
    for inst in sweep.cyc_instances(tier, seed, per_shape=3):
        for cls in FD[2:]:
            yield dict(inst, cls=cls)
    # non-negative flows: arcs (and, in the node twin, nodes) carrying 0
    for inst in sweep.dag_zero_flow_instances(tier, seed):
        for cls in FD[:2]:
            yield dict(inst, cls=cls)
    # float data whose sums are not exact in binary floating point
    for inst in sweep.dag_float_data_instances(tier, seed):
        for cls in FD[:2]:
            yield dict(inst, cls=cls)


def run(case):
    viol = []
    nt = []
    tags = collections.Counter()
    cls = case["cls"]
    cyc = sweep.is_cyc(cls)
    rkey = "walks" if cyc else "paths"
    ckey = "subset_constraints" if cyc else "subpath_constraints"
    inst = {k: case[k] for k in ("fam", "nodes", "arcs")}
    E = [(a[0], a[1]) for a in inst["arcs"]]
    key = world.shape_key((len(inst["nodes"]), tuple(E))) + "|" + ",".join(str(a[2]) for a in inst["arcs"]) + "|" + cls
    is_k = cls.startswith("k")
    sib = "MinFlowDecompCycles" if cyc else "MinFlowDecomp"
    fdata = bool(case.get("float_data"))
    if fdata:
        import flowpaths.utils.graphutils as gu
        from fractions import Fraction
        exact_ok = all(sum(Fraction(a[2]) for a in inst["arcs"] if a[1] == v) == sum(Fraction(a[2]) for a in inst["arcs"] if a[0] == v)
                       for v in inst["nodes"] if any(a[1] == v for a in inst["arcs"]) and any(a[0] == v for a in inst["arcs"]))
        if not gu.check_flow_conservation(drivers.build_graph(inst), "flow"):
            if exact_ok:
                return {"v": [{"kind": "conserving_flow_rejected", "msg": f"check_flow_conservation rejects {inst['arcs']}, which conserves flow exactly (in rational arithmetic) at every inner node"}],
                        "nt": None, "tags": {}, "out": "viol"}
            return {"v": [], "nt": None, "tags": {"float_data_not_exactly_conserving(skipped)": 1}, "out": "skip"}
    o = drivers.observe(dict(inst, cls=sib, kw={"weight_type": "float" if fdata else "int"}))
    if not o["solved"]:
        return {"v": [{"kind": "min_sibling_unsolved", "msg": f"{sib} did not solve a decomposable instance: {o['exc']}"}], "nt": None, "tags": {}, "out": "skip"}
    k0 = len(o["sol"][rkey])
    wts0 = list(o["sol"]["weights"])

    cfgs = []

    def add(name, kw=None, inst2=None, origin="edge", ignored=()):
        cfgs.append((name, kw or {}, inst2, origin, list(ignored)))

    for wt in ("int", "float"):
        add(f"{wt}", {"weight_type": wt})
        if not cyc:
            add(f"{wt},greedy_off", {"weight_type": wt, "optimization_options": {"optimize_with_greedy": False}})
        if is_k:
            add(f"{wt},k+1", {"weight_type": wt, "k": k0 + 1})
            if not cyc:
                add(f"{wt},k+1,greedy_off", {"weight_type": wt, "k": k0 + 1, "optimization_options": {"optimize_with_greedy": False}})
    # given weights
    if cls == "kFlowDecomp":
        add("int,weights_superset", {"weight_type": "int", "solution_weights_superset": wts0 + [max(wts0) + 3]})
        add("float,weights_superset", {"weight_type": "float", "solution_weights_superset": [float(w) for w in wts0] + [0.5]})
    elif cls.startswith("Min"):
        add("int,guessed", {"weight_type": "int", "optimization_options": {"optimize_with_guessed_weights": True, "optimize_with_greedy": False}})
        add("int,guessed+mgs", {"weight_type": "int", "optimization_options": {"optimize_with_guessed_weights": True, "use_min_gen_set_lowerbound": True, "optimize_with_greedy": False}})
    elif cls == "kFlowDecompCycles":
        add("int,given_weights", {"weight_type": "int", "k": k0 + 1, "optimization_options": {"given_weights": wts0, "optimize_with_safe_sequences": False, "allow_empty_walks": True}})
    # node twin (+ one node without the attribute)
    nt_inst = sweep.node_twin(inst)
    add("int,node", {"weight_type": "int", "flow_attr_origin": "node"}, nt_inst, "node")
    add("float,node", {"weight_type": "float", "flow_attr_origin": "node"}, nt_inst, "node")
    # a node without arcs (a source that is also a sink): its value must be explained by the single-node route, also when the caller
    # asks get_solution() to drop empty routes
    iso_inst, _q = sweep.with_isolated_node(nt_inst)
    rm = "remove_empty_walks" if cyc else "remove_empty_paths"
    kiso = {"k": k0 + 2} if is_k else {}
    add("int,node,isolated", dict({"weight_type": "int", "flow_attr_origin": "node"}, **kiso), iso_inst, "node")
    if is_k:  # the minimum searches' get_solution() takes no argument
      add("int,node,isolated,remove_empty", dict({"weight_type": "int", "flow_attr_origin": "node"}, **kiso), dict(iso_inst, get_solution_kw={rm: True}), "node")
      add("float,node,isolated,keep_empty", dict({"weight_type": "float", "flow_attr_origin": "node"}, **kiso), dict(iso_inst, get_solution_kw={rm: False}), "node")
    inner = sweep.inner_nodes(inst)
    if inner:
        nw = dict(nt_inst["node_w"])
        nw[inner[0]] = None
        add("int,node,one_absent", {"weight_type": "int", "flow_attr_origin": "node"}, dict(nt_inst, node_w=nw), "node")
        add("int,node,one_ignored", {"weight_type": "int", "flow_attr_origin": "node", "elements_to_ignore": [inner[0]]}, nt_inst, "node", [inner[0]])
    # ignored arcs
    if len(E) > 1:
        for i, e in enumerate(E):
            add(f"int,ignore{i}", {"weight_type": "int", "elements_to_ignore": [list(e)]}, None, "edge", [e])
            bumped = dict(inst, arcs=[[a[0], a[1], a[2] + (2 if (a[0], a[1]) == e else 0)] for a in inst["arcs"]])
            add(f"float,ignore{i},bumped", {"weight_type": "float", "elements_to_ignore": [list(e)]}, bumped, "edge", [e])
        if len(E) > 2:
            add("int,ignore_pair", {"weight_type": "int", "elements_to_ignore": [list(E[0]), list(E[-1])]}, None, "edge", [E[0], E[-1]])
    con = sweep.a_constraint(inst)
    if con:
        add("int,constraint", {"weight_type": "int", ckey: [con]})
        if not cyc:
            add("int,constraint,greedy_off", {"weight_type": "int", ckey: [con], "optimization_options": {"optimize_with_greedy": False}})

    if fdata:
        cfgs = [c for c in cfgs if c[0].startswith("float") and "node" not in c[0] and "superset" not in c[0]]
        if is_k:
            cfgs.append(("float,k+2", {"weight_type": "float", "k": k0 + 2}, None, "edge", []))
            cfgs.append(("float,k+2,greedy_off", {"weight_type": "float", "k": k0 + 2, "optimization_options": {"optimize_with_greedy": False}}, None, "edge", []))
    if not fdata:
        # solver answers within tolerance: every value read from the solver shifted by -/+ 5e-10 (int weights must be rounded, not truncated)
        cfgs.append(("int,noise-", {"weight_type": "int", "optimization_options": ({} if cyc else {"optimize_with_greedy": False})}, None, "edge", []))
        cfgs.append(("int,noise+", {"weight_type": "int", "optimization_options": ({} if cyc else {"optimize_with_greedy": False})}, None, "edge", []))
    if not fdata:
        # integral flow values stored as floats (what read_graph produces) with integer weights
        cfgs.append(("int,float_valued_data", {"weight_type": "int"}, dict(inst, arcs=[[a[0], a[1], float(a[2])] for a in inst["arcs"]]), "edge", []))
    cfgs.append(("int,solve_twice", {"weight_type": "int", "optimization_options": ({} if cyc else {"optimize_with_greedy": False})}, None, "edge", []))
    for name, kw, inst2, origin, ignored in cfgs:
        use = inst2 or inst
        kw = dict(kw)
        if is_k and "k" not in kw and "solution_weights_superset" not in kw:
            kw["k"] = k0 + (1 if ("ignore" in name or "constraint" in name or "node" in name) else 0)
        if "solution_weights_superset" in kw:
            kw["k"] = k0
        if "noise" in name:
            from .. import faults
            with faults.ValueNoise(-5e-10 if name.endswith("-") else 5e-10) as vn:
                obs = drivers.observe(dict(use, cls=cls, kw=kw))
            tags["noisy_value_reads"] += vn.reads
        else:
            obs = drivers.observe(dict(use, cls=cls, kw=kw, solve_twice=("solve_twice" in name)))
        tags[f"cfg:{name.split(',')[1] if ',' in name else 'plain'}"] += 1
        ctx = f"{cls}({name}: {kw})"
        if obs["exc"]:
            viol.append({"kind": "exception_on_valid_input", "msg": f"{ctx} raised {obs['exc']} in {obs['phase']}"})
            continue
        if not obs["solved"]:
            tags["unsolved"] += 1
            continue
        m = obs["model"]
        st = getattr(m, "solve_statistics", {}) or {}
        fdm = getattr(m, "fd_model", None)
        if "greedy_solve_time" in st or (fdm is not None and "greedy_solve_time" in (getattr(fdm, "solve_statistics", {}) or {})):
            tags["route:greedy"] += 1
        elif getattr(m, "solution_weights_superset", None) is not None or (fdm is not None and fdm is getattr(m, "_given_weights_model", None)):
            tags["route:given_weights"] += 1
        else:
            tags["route:milp"] += 1
        sol = obs["sol"]
        routes = sol.get(rkey)
        wt = kw["weight_type"]
        errs = preds.shape_errors(sol, rkey, weight_type=wt)
        if not errs:
            errs = preds.route_errors(use, routes, cyc)
        if not errs:
            errs = preds.explain_errors(use, routes, sol["weights"], origin, ignored, wt)
        if errs:
            viol.append({"kind": "flow_not_explained", "cfg": name, "msg": f"{ctx}: {errs[0]}", "solution": {rkey: routes, "weights": sol.get("weights")}})
        elif len(routes) >= 2 or any(len(set(r)) < len(r) for r in routes):
            nt.append(f"{key}|{name}")
        if len(viol) > 5:
            break
    return {"v": viol[:5], "nt": nt, "tags": dict(tags), "out": "viol" if viol else "ok"}
