"""C19 - invalid inputs are rejected with ValueError instead of being solved; valid inputs are accepted."""
import collections
import copy
import itertools

from .. import common, drivers, world

SPEC = {
    "id": "C19",
    "level": "exploration",
    "design_ref": "DESIGN.md section 5, C19",
    "rule": ("cases = (model class) x (valid base instance: 3 DAG / 3 cyclic shapes, edge- and node-weighted) x (every single violation of the mutation alphabet that "
             "applies to the class; thorough: every pair); judged: a ValueError (subclass) at construction or in solve() where the class / its base classes document one; "
             "never another exception type; never is_solved() == True. The unmutated base instances must be accepted and solved. "
             "non-trivial = distinct (class, base, mutation) that was rejected with ValueError"),
    "assumptions": ["'required' matrix derived from the Raises sections of the classes and of stDAG / stDiGraph / AbstractSourceSinkGraph / the abstract models (see REQUIRED in the module)",
                    "a non-integer positive k (1.5) is not covered by the statement ('non-positive k'): only 'must not claim solved' is judged for it"],
}

DAG = ["kFlowDecomp", "MinFlowDecomp", "kLeastAbsErrors", "kMinPathError", "kPathCover", "MinPathCover"]
CYC = ["kFlowDecompCycles", "MinFlowDecompCycles", "kLeastAbsErrorsCycles", "kMinPathErrorCycles", "kPathCoverCycles", "MinPathCoverCycles"]
WEIGHTED = [c for c in DAG + CYC if "Cover" not in c] + ["MinErrorFlow"]
HAS_K = [c for c in DAG + CYC if c.startswith("k")]
HAS_STARTS = ["kLeastAbsErrors", "kMinPathError", "kPathCover", "MinPathCover", "kFlowDecompCycles", "kLeastAbsErrorsCycles", "kMinPathErrorCycles", "kPathCoverCycles",
              "MinPathCoverCycles", "MinErrorFlow"]
HAS_SCALE = ["kLeastAbsErrors", "kMinPathError", "kLeastAbsErrorsCycles", "kMinPathErrorCycles", "MinErrorFlow"]
HAS_CONS = DAG + CYC
FD = ["kFlowDecomp", "MinFlowDecomp", "kFlowDecompCycles", "MinFlowDecompCycles"]

BASES_DAG = [
    {"nodes": ["s", "a", "b", "t"], "arcs": [["s", "a", 3], ["a", "t", 3], ["s", "b", 2], ["b", "t", 2]]},
    {"nodes": ["s", "a", "t"], "arcs": [["s", "a", 4], ["a", "t", 4]]},
    {"nodes": ["x", "y", "m", "t"], "arcs": [["x", "m", 1], ["y", "m", 2], ["m", "t", 3]]},
]
BASES_CYC = [
    {"nodes": ["s", "a", "b", "t"], "arcs": [["s", "a", 1], ["a", "b", 2], ["b", "a", 2], ["a", "t", 1]]},
    {"nodes": ["s", "a", "t"], "arcs": [["s", "a", 2], ["a", "a", 2], ["a", "t", 2]]},
    {"nodes": ["s", "a", "b", "c", "t"], "arcs": [["s", "a", 1], ["a", "b", 1], ["b", "c", 1], ["c", "a", 0], ["c", "t", 1]]},
]

MUTATIONS = ["covlen_0", "covlen_neg", "covlen_big", "covlen_without_length_attr", "covlen_with_coverage", "nonstring_node", "cycle", "no_source", "no_sink", "negative", "negative_last", "missing", "nonconserving", "nonconserving_quarter", "cons_absent_arc", "cons_not_list", "cons_empty", "cons_nontuple",
             "coverage_0", "coverage_neg", "coverage_big", "coverage_nan", "covlen_nan", "k_0", "k_neg", "k_frac", "weight_type_str", "origin_foo", "unknown_start", "unknown_end", "scale_big", "scale_neg", "scale_nan", "empty_graph",
             "k_0_superset", "k_neg_superset", "nan_weight", "inf_weight", "unknown_start_edge", "unknown_end_edge", "tolerance_nan", "cons_edge_as_list_after_tuple", "cons_edge_as_string_after_tuple"]


def bounds(tier):
    return {"classes": DAG + CYC + ["MinErrorFlow"], "bases": "3 DAG + 3 cyclic shapes, edge and node weighted", "mutations": MUTATIONS, "combinations": 1 if tier == "quick" else 2}


def applicable(cls, mut, origin):
    cyc = cls in CYC
    if mut == "missing" and origin == "node":
        return False  # a node without the attribute is ignored by design: not a 'missing weight on a non-ignored element'
    if cls == "MinErrorFlow":
        # (MinErrorFlow documents no node-type requirement of its own; non-string nodes are not judged for it)
        if mut in ("unknown_start_edge", "unknown_end_edge"):
            return origin == "node"
        return mut in ("missing", "weight_type_str", "origin_foo", "unknown_start", "unknown_end", "scale_big", "scale_neg", "empty_graph", "nan_weight", "inf_weight", "tolerance_nan")
    if mut == "cycle":
        return not cyc
    if mut in ("no_source", "no_sink"):
        return cyc
    if mut in ("negative", "negative_last", "missing", "nan_weight", "inf_weight"):
        return cls in WEIGHTED
    if mut in ("k_0_superset", "k_neg_superset"):
        return cls in ("kFlowDecomp", "kLeastAbsErrors", "kMinPathError")  # the classes taking solution_weights_superset
    if mut in ("unknown_start_edge", "unknown_end_edge"):
        return cls in HAS_STARTS and origin == "node"  # an edge of the graph is not one of its nodes
    if mut in ("nonconserving", "nonconserving_quarter"):
        return cls in FD and origin == "edge"
    if mut.startswith("covlen"):
        return cls in DAG  # length coverage exists for the DAG models only
    if mut in ("cons_edge_as_list_after_tuple", "cons_edge_as_string_after_tuple"):
        return cls in HAS_CONS and origin == "node"  # (edge mode: the same shapes are cons_nontuple)
    if mut.startswith("cons_") or mut.startswith("coverage"):
        return cls in HAS_CONS
    if mut.startswith("k_"):
        return cls in HAS_K
    if mut == "weight_type_str":
        return cls in WEIGHTED
    if mut == "origin_foo":
        return True
    if mut in ("unknown_start", "unknown_end"):
        return cls in HAS_STARTS
    if mut.startswith("scale"):
        return cls in HAS_SCALE
    return True


def required(cls, mut):
    """must a ValueError be raised (documented), or is 'never claims solved / never another exception type' all that is judged?"""
    if mut == "k_frac":
        return False
    if mut == "inf_weight":
        return False  # infinity is not negative: only 'never claims solved' is judged (NaN, which is not >= 0, must be rejected like a negative value)
    if mut in ("nonconserving", "nonconserving_quarter") and cls == "kFlowDecompCycles":
        return False  # not documented for this class; the instance is simply infeasible
    return True


def _run_long_chain(case):
    """converse clause: a well-formed input must be accepted whatever its size - a chain of 1100 nodes (deeper than Python's default
    recursion limit) for every class"""
    import networkx as nx
    import flowpaths as fp
    n = case["long_chain"]
    G = nx.DiGraph()
    for i in range(n - 1):
        G.add_edge(f"v{i}", f"v{i + 1}", flow=3)
    cls = getattr(fp, case["cls"])
    kw = {"solver_options": {"threads": 1}}
    if case["cls"] in HAS_K:
        kw["k"] = 1
    ctx = f"{case['cls']}(chain of {n} nodes, flow 3 on every arc)"
    try:
        m = cls(G, **kw) if "Cover" in case["cls"] else cls(G, flow_attr="flow", weight_type=int, **kw)
        m.solve()
        if not m.is_solved():
            return {"v": [{"kind": "valid_input_unsolved", "msg": f"{ctx}: not solved"}], "nt": None, "tags": {}, "out": "long:unsolved"}
    except BaseException as e:  # noqa (RecursionError is an Exception, but be thorough)
        if isinstance(e, (KeyboardInterrupt, SystemExit)):
            raise
        return {"v": [{"kind": "valid_input_rejected", "msg": f"{ctx}: raised {type(e).__name__}: {str(e)[:120]}"}], "nt": None, "tags": {}, "out": "long:exc"}
    return {"v": [], "nt": f"long_chain|{case['cls']}", "tags": {"long_chain": 1}, "out": "long:ok"}


def cases(tier, seed):
    for cls in DAG + CYC + ["MinErrorFlow"]:
        yield {"cls": cls, "long_chain": 1100, "fam": "cyc" if cls in CYC else "dag"}
    for cls in DAG + CYC + ["MinErrorFlow"]:
        bases = BASES_CYC if cls in CYC else BASES_DAG + (BASES_CYC[:1] if cls == "MinErrorFlow" else [])
        for bi, base in enumerate(bases):
            for origin in ("edge", "node"):
                if origin == "node" and cls in ("MinPathCover", "kPathCover", "MinPathCoverCycles", "kPathCoverCycles") and False:
                    continue
                muts = [m for m in MUTATIONS if applicable(cls, m, origin)]
                yield {"cls": cls, "base": base, "bi": bi, "origin": origin, "muts": [], "fam": "cyc" if cls in CYC else "dag"}
                for m in muts:
                    yield {"cls": cls, "base": base, "bi": bi, "origin": origin, "muts": [m], "fam": "cyc" if cls in CYC else "dag"}
                if tier == "thorough":
                    def grp(m):
                        if m in ("negative", "negative_last", "missing", "nonconserving", "nonconserving_quarter", "nan_weight", "inf_weight"):
                            return "weights"
                        if m.startswith("unknown_"):
                            return "_".join(m.split("_")[:2])
                        return m.split("_")[0] if m.split("_")[0] in ("k", "coverage", "cons", "scale", "covlen") else m
                    for m1, m2 in itertools.combinations([m for m in muts if m != "tolerance_nan"], 2):  # (tolerance_nan runs in a child process each: singles only)
                        if grp(m1) == grp(m2) or {grp(m1), grp(m2)} <= {"coverage", "cons", "covlen"}:
                            continue  # two violations of the same parameter overwrite each other
                        yield {"cls": cls, "base": base, "bi": bi, "origin": origin, "muts": [m1, m2], "fam": "cyc" if cls in CYC else "dag"}


def _build(case):
    """returns (G, kwargs, positional flow_attr?)"""
    import networkx as nx
    cls = case["cls"]
    base = copy.deepcopy(case["base"])
    origin = case["origin"]
    muts = case["muts"]
    cover = "Cover" in cls
    nodes = list(base["nodes"])
    arcs = [list(a) for a in base["arcs"]]
    kw = {}
    if cover:
        kw["cover_type"] = origin
    else:
        kw["flow_attr_origin"] = origin
        kw["weight_type"] = int
    if cls in HAS_K:
        kw["k"] = 3
    first_arc = (arcs[0][0], arcs[0][1])
    second_arc = (arcs[1][0], arcs[1][1])
    ckey = "subset_constraints" if cls in CYC else "subpath_constraints"
    ccov = "subset_constraints_coverage" if cls in CYC else "subpath_constraints_coverage"
    node_w = {}
    if origin == "node":
        for v in nodes:
            inn = sum(a[2] for a in arcs if a[1] == v)
            out = sum(a[2] for a in arcs if a[0] == v)
            node_w[v] = max(inn, out)
    for m in muts:
        if m == "cycle":
            arcs.append([arcs[-1][1], arcs[0][0], 1])
            # keeps a source? the back arc sink->source removes both: add fresh source and sink to isolate the 'cyclic' violation
            arcs.append(["zsrc", arcs[0][0], 1])
            arcs.append([arcs[-3][1], "zsnk", 1])
            nodes += ["zsrc", "zsnk"]
            node_w.update({"zsrc": 1, "zsnk": 1})
        elif m == "no_source":
            src = [v for v in nodes if not any(a[1] == v for a in arcs)]
            for s_ in src:
                arcs.append([nodes[1] if nodes[1] != s_ else nodes[2], s_, 1])
        elif m == "no_sink":
            snk = [v for v in nodes if not any(a[0] == v for a in arcs)]
            for t_ in snk:
                arcs.append([t_, nodes[1] if nodes[1] != t_ else nodes[0], 1])
        elif m == "negative":
            if origin == "edge":
                arcs[0][2] = -1
            else:
                node_w[nodes[0]] = -1
        elif m == "missing":
            if origin == "edge":
                arcs[0][2] = None
            else:
                # a node without the attribute is *ignored* by design in node mode; the violation is a missing weight on every node
                node_w = {v: None for v in nodes}
        elif m == "negative_last":
            # a negative weight somewhere else than on the first element visited
            if origin == "edge":
                arcs[-1][2] = -1
            else:
                node_w[nodes[-1]] = -1
        elif m == "nonconserving":
            arcs[0][2] = arcs[0][2] + 5
        elif m == "nonconserving_quarter":
            # float data with a small imbalance (0.25) at an inner node
            arcs[0][2] = arcs[0][2] + 0.25
            kw["weight_type"] = float
        elif m == "cons_absent_arc":
            kw[ckey] = [[(nodes[-1], nodes[0])]] if origin == "edge" else [["nonexistent_node"]]
        elif m == "cons_not_list":
            kw[ckey] = [first_arc] if origin == "edge" else [nodes[0]]
        elif m == "cons_empty":
            kw[ckey] = [[]]
        elif m == "cons_edge_as_list_after_tuple":
            # node mode, constraint in edge form whose SECOND element is not a tuple (the form is recognised from the first element only)
            kw[ckey] = [[first_arc, [second_arc[0], second_arc[1]]]]
        elif m == "cons_edge_as_string_after_tuple":
            kw[ckey] = [[first_arc, second_arc[0] + second_arc[1]]]
        elif m == "cons_nontuple":
            kw[ckey] = [[[first_arc[0], first_arc[1]]]] if origin == "edge" else [[3]]
        elif m in ("coverage_0", "coverage_neg", "coverage_big", "coverage_nan"):
            kw.setdefault(ckey, [[first_arc]] if origin == "edge" else [[nodes[0]]])
            kw[ccov] = {"coverage_0": 0, "coverage_neg": -0.1, "coverage_big": 1.5, "coverage_nan": float("nan")}[m]
        elif m.startswith("covlen"):
            kw.setdefault(ckey, [[first_arc]] if origin == "edge" else [[nodes[0]]])
            if m != "covlen_without_length_attr":
                kw["length_attr"] = "length"
            kw["subpath_constraints_coverage_length"] = {"covlen_0": 0, "covlen_neg": -0.1, "covlen_big": 1.5, "covlen_without_length_attr": 0.5, "covlen_with_coverage": 0.5, "covlen_nan": float("nan")}[m]
            if m == "covlen_with_coverage":
                kw["subpath_constraints_coverage"] = 0.5
        elif m in ("nan_weight", "inf_weight"):
            val = float("nan") if m == "nan_weight" else float("inf")
            if origin == "edge":
                arcs[-1][2] = val
            else:
                node_w[nodes[-1]] = val
        elif m in ("k_0_superset", "k_neg_superset"):
            # a given weight list must not switch the check of k off
            kw["k"] = 0 if m == "k_0_superset" else -1
            kw["solution_weights_superset"] = [1, 2, 3]
        elif m in ("unknown_start_edge", "unknown_end_edge"):
            kw["additional_starts" if m == "unknown_start_edge" else "additional_ends"] = [second_arc]
        elif m == "k_0":
            kw["k"] = 0
        elif m == "k_neg":
            kw["k"] = -1
        elif m == "k_frac":
            kw["k"] = 1.5
        elif m == "weight_type_str":
            kw["weight_type"] = str
        elif m == "origin_foo":
            kw["cover_type" if cover else "flow_attr_origin"] = "foo"
        elif m == "unknown_start":
            kw["additional_starts"] = ["no_such_node"]
        elif m == "unknown_end":
            kw["additional_ends"] = ["no_such_node"]
        elif m == "scale_big":
            kw["error_scaling"] = {(first_arc if origin == "edge" else nodes[0]): 1.5}
        elif m == "scale_neg":
            kw["error_scaling"] = {(first_arc if origin == "edge" else nodes[0]): -0.5}
        elif m == "scale_nan":
            kw["error_scaling"] = {(first_arc if origin == "edge" else nodes[0]): float("nan")}
    G = nx.DiGraph()
    if "empty_graph" not in muts:
        for v in nodes:
            if origin == "node" and node_w.get(v) is not None:
                G.add_node(v, flow=node_w[v])
            else:
                G.add_node(v)
        for u, v, w in arcs:
            if origin == "edge" and w is not None:
                G.add_edge(u, v, flow=w)
            else:
                G.add_edge(u, v)
    if "nonstring_node" in muts:
        G = nx.relabel_nodes(G, {nodes[0]: 7}) if G.number_of_nodes() else G
        if G.number_of_nodes() == 0:
            G.add_edge(1, 2, flow=1)
    kw["solver_options"] = {"threads": 1}
    if "tolerance_nan" in muts:
        kw["solver_options"]["tolerance"] = float("nan")  # SolverWrapper documents tolerance >= 1e-9
    return G, kw, cover


def _run_isolated(case):
    """a case that has crashed the interpreter (HiGHS given a NaN tolerance) runs in a child process: a crash is an outcome, not the end of the exploration"""
    import json
    import os
    import subprocess
    import sys
    here = os.path.dirname(os.path.dirname(os.path.dirname(os.path.abspath(__file__))))
    ctx = f"{case['cls']}({case['origin']} mode, base {case['bi']}, violations={case['muts']})"
    try:
        p = subprocess.run([sys.executable, "-m", "mc.props.c19"], input=json.dumps(dict(case, isolated=True)), capture_output=True, text=True, cwd=here, timeout=90)
    except subprocess.TimeoutExpired:
        # (the same three-node instances solve in milliseconds)
        return {"v": [{"kind": "no_answer", "mut": case["muts"], "msg": f"{ctx}: neither an error nor an answer within 90 s"}], "nt": None, "tags": {}, "out": "hang"}
    line = [l for l in p.stdout.splitlines() if l.startswith("RESULT ")]
    if p.returncode != 0 or not line:
        return {"v": [{"kind": "interpreter_crash", "mut": case["muts"], "msg": f"{ctx}: the process died with status {p.returncode} (a negative status is a signal) instead of raising ValueError"}],
                "nt": None, "tags": {}, "out": f"crash:{p.returncode}"}
    return json.loads(line[-1][7:])


def _solver_was_built(m):
    """did the model (or the inner model of a minimum search) ever create a SolverWrapper? (the greedy route of the flow decompositions does not)"""
    for obj in (m, getattr(m, "fd_model", None), getattr(m, "model", None)):
        if obj is not None and getattr(obj, "solver", None) is not None:
            return True
    return False


def run(case):
    import flowpaths as fp
    if case.get("long_chain"):
        return _run_long_chain(case)
    if "tolerance_nan" in case["muts"] and not case.get("isolated"):
        return _run_isolated(case)
    viol = []
    tags = collections.Counter()
    cls = getattr(fp, case["cls"])
    G, kw, cover = _build(case)
    muts = case["muts"]
    ctx = f"{case['cls']}({case['origin']} mode, base {case['bi']}, violations={muts})"
    phase = "construct"
    exc = None
    solved = None
    try:
        m = cls(G, **kw) if cover else cls(G, flow_attr="flow", **kw)
        phase = "solve"
        m.solve()
        solved = bool(m.is_solved())
        if solved:
            phase = "get_solution"
            m.get_solution()
    except SystemExit as e:
        exc = ("SystemExit", str(e))
    except Exception as e:  # noqa
        exc = (type(e).__name__, str(e)[:150], isinstance(e, ValueError))
    nt = None
    if not muts:
        tags["valid_base"] += 1
        if exc:
            viol.append({"kind": "valid_input_rejected", "msg": f"{ctx}: well-formed input raised {exc[0]}: {exc[1]} in {phase}"})
        elif not solved:
            viol.append({"kind": "valid_input_unsolved", "msg": f"{ctx}: well-formed input was not solved"})
        else:
            nt = f"{case['cls']}|{case['origin']}|{case['bi']}|valid"
    else:
        need = any(required(case["cls"], m_) for m_ in muts)
        if exc is not None and len(exc) == 3 and exc[2]:
            tags["rejected_with_ValueError"] += 1
            nt = f"{case['cls']}|{case['origin']}|{case['bi']}|{muts}"
        elif exc is not None and not need:
            tags["other_exception_on_undocumented_violation(allowed)"] += 1
        elif exc is not None and any(not required(case["cls"], m_) for m_ in muts):
            # a pair one of whose violations documents no ValueError (k = 1.5, an infinite weight): its exception may come first
            tags["other_exception_on_undocumented_violation(allowed)"] += 1
        elif exc is not None:
            viol.append({"kind": "wrong_exception_type", "mut": muts, "msg": f"{ctx}: raised {exc[0]}: {exc[1]} in {phase} instead of ValueError"})
        elif solved and muts == ["tolerance_nan"] and not _solver_was_built(m):
            tags["tolerance_never_used(answer_without_a_solver)"] += 1
        elif solved:
            viol.append({"kind": "invalid_input_solved", "mut": muts, "msg": f"{ctx}: no error and the model claims to be solved"})
        elif need:
            viol.append({"kind": "invalid_input_not_rejected", "mut": muts, "msg": f"{ctx}: no ValueError at construction or in solve() (model merely ended unsolved)"})
        else:
            tags["unsolved_without_error(allowed)"] += 1
    return {"v": viol, "nt": nt, "tags": dict(tags), "out": f"{phase}:{exc[0] if exc else None}:{solved}"}


if __name__ == "__main__":
    import json
    import sys
    common.bind()
    print("RESULT " + json.dumps(run(json.load(sys.stdin))))
