"""C14 - walk reconstruction uses every arc exactly as often as the solver decided.

Exhaustive over (digraph shape) x (every per-node out-arc order, the only nondeterminism of the
Hierholzer routine) x (every Eulerian s-t multiplicity vector x <= B) x (value noise) x (1..2 layers)
x (declared additional start/end), on a real stDiGraph with a minimal concrete subclass of
AbstractWalkModelDiGraph whose edge_vars_sol is injected."""
import collections
import itertools

from .. import world

SPEC = {
    "id": "C14",
    "level": "exploration",
    "design_ref": "DESIGN.md section 5, C14",
    "rule": ("cases = (digraph shape of W-DIG/W-NAMED) x (every combination of per-node out-arc insertion orders) x "
             "(additional start/end variant); inside each case every multiplicity vector x in {0..B}^E that is balanced at "
             "inner nodes, uses one source arc and one sink arc and whose support is connected from the start is injected "
             "as solver output (x 3 noise patterns, and in 2-layer stacks) into the real get_solution_walks(); every walk obtained is also "
             "passed through the node-mode hand-over (its node-expanded form through NodeExpandedDiGraph.get_condensed_paths) and must come back unchanged; "
             "non-trivial = distinct (case, vector) whose walk repeats a node (a closed sub-walk had to be spliced)"),
    "assumptions": [
        "solver values are within 1e-7 of integers (the wrapper sets integrality tolerance 1e-9)",
        "the global sink arc is always last in a node's adjacency (stDiGraph adds it after the base arcs); this order is the library's own and is not permuted",
    ],
}


def bounds(tier):
    if tier == "quick":
        return {"shapes": "W-DIG(n<=4, arcs<=7) + W-NAMED + cyclic 5-node digraphs with <=6 arcs", "B": 2, "orders": "all per-node out-arc orders", "layers": [1, 2],
                "noise": [0, 1e-7, -1e-7], "additional_start_end": "none"}
    return {"shapes": "W-DIG(n<=4, arcs<=8) + W-NAMED + cyclic 5-node digraphs with <=6 arcs", "B": 3, "orders": "all per-node out-arc orders", "layers": [1, 2],
            "noise": [0, 1e-7, -1e-7], "additional_start_end": "none + every single inner node as start / as end"}


def _orders(names, arcs):
    by_tail = collections.OrderedDict()
    for u, v in arcs:
        by_tail.setdefault(u, []).append((u, v))
    per = [list(itertools.permutations(lst)) for lst in by_tail.values()]
    for combo in itertools.product(*per):
        yield [a for grp in combo for a in grp]


def cases(tier, seed):
    amax = 7 if tier == "quick" else 8
    B = 2 if tier == "quick" else 3
    shapes = world.dig_shapes(4, amax) + world.named_shapes() + [x for x in world.dig_shapes(5, 6, selfloops=False) if x[0] == 5 and not world.is_acyclic(*x)]
    seen = set()
    for idx, shp in enumerate(shapes):
        if shp in seen:
            continue
        seen.add(shp)
        names, arcs = world.present(shp, seed, idx)
        n_arcs = len(arcs)
        b = B if n_arcs <= 7 else 2
        variants = [([], [])]
        if tier == "thorough" and n_arcs <= 6:
            for v in names:
                variants.append(([v], []))
                variants.append(([], [v]))
        for order in _orders(names, arcs):
            for (st, en) in variants:
                yield {"nodes": names, "arcs": [list(a) for a in order], "B": b, "starts": st, "ends": en}


def _stub_class():
    import flowpaths.abstractwalkmodeldigraph as awm

    class Stub(awm.AbstractWalkModelDiGraph):
        def __init__(self, G, k):
            self.G = G
            self.k = k
            self.edge_vars_sol = {}

        def get_solution(self):
            pass

        def get_lowerbound_k(self):
            return 1

        def is_valid_solution(self):
            return True

        def get_objective_value(self):
            return 0
    return Stub


def _weighted(G):
    H = G.copy()
    for v in H.nodes():
        H.nodes[v]["flow"] = 1
    return H


def eulerian_vectors(st, E, B):
    """All (full multiplicity dict over st.edges, se, te) that form one s-t walk."""
    SE = list(st.edges())
    inner = [v for v in st.nodes() if v not in (st.source, st.sink)]
    preds = {v: list(st.predecessors(v)) for v in inner}
    succs = {v: list(st.successors(v)) for v in inner}
    out = []
    for x in itertools.product(range(B + 1), repeat=len(E)):
        mult = dict(zip(E, x))
        for se in st.source_edges:
            for te in st.sink_edges:
                full = {e: 0 for e in SE}
                full.update(mult)
                full[se] = 1
                full[te] = 1
                if any(sum(full[(u, v)] for u in preds[v]) != sum(full[(v, w)] for w in succs[v]) for v in inner):
                    continue
                # connectivity of the support from the source
                adj = collections.defaultdict(list)
                for (a, b), c in full.items():
                    if c > 0:
                        adj[a].append(b)
                seen = {st.source}
                stack = [st.source]
                while stack:
                    a = stack.pop()
                    for b in adj[a]:
                        if b not in seen:
                            seen.add(b)
                            stack.append(b)
                if any(c > 0 and a not in seen for (a, b), c in full.items()):
                    continue
                out.append((full, se, te))
    return out


def run(case):
    import networkx as nx
    import flowpaths as fp
    Stub = _stub_class()
    G = nx.DiGraph()
    G.add_nodes_from(case["nodes"])
    G.add_edges_from([tuple(a) for a in case["arcs"]])
    st = fp.stDiGraph(G, additional_starts=case["starts"], additional_ends=case["ends"])
    E = [tuple(a) for a in case["arcs"]]
    vecs = eulerian_vectors(st, E, case["B"])
    viol = []
    nt = 0
    tags = collections.Counter()

    def check(walk, full, se, te, ctx):
        exp = collections.Counter({e: c for e, c in full.items() if c > 0 and e[0] != st.source and e[1] != st.sink})
        if not isinstance(walk, list) or len(walk) == 0:
            return f"{ctx}: empty/non-list walk {walk!r} for a non-zero assignment"
        if any(v not in G for v in walk):
            return f"{ctx}: walk {walk} contains nodes outside the graph (source/sink not stripped?)"
        got = collections.Counter(zip(walk[:-1], walk[1:]))
        if got != exp:
            missing = exp - got
            extra = got - exp
            return f"{ctx}: walk {walk} drops {dict(missing)} invents {dict(extra)}"
        if walk[0] != se[1] or walk[-1] != te[0]:
            return f"{ctx}: walk {walk} does not start after {se} / end before {te}"
        return None

    NX = None
    for idx, (full, se, te) in enumerate(vecs):
        for noise in (0.0, 1e-7, -1e-7):
            m = Stub(st, 1)
            m.edge_vars_sol = {(u, v, 0): float(c) + noise for (u, v), c in full.items()}
            walks = m.get_solution_walks()
            err = None
            if len(walks) != 1:
                err = f"expected 1 walk, got {len(walks)}"
            else:
                err = check(walks[0], full, se, te, f"noise={noise}")
            if err:
                viol.append({"kind": "walk_mismatch", "msg": err,
                             "vector": {f"{a}->{b}": c for (a, b), c in full.items() if c}, "noise": noise})
                break
        w = None
        try:
            w = walks[0]
        except Exception:
            pass
        if w and not err and not case["starts"] and not case["ends"]:
            # node mode: the model works on the node-expanded graph and hands the user the condensed walk; the walk u,v,w,...
            # is u.0,u.1,v.0,v.1,... internally (a self-loop v->v shows as v.0,v.1,v.0,v.1) and must come back unchanged
            if NX is None:
                NX = fp.NodeExpandedDiGraph(_weighted(G), node_flow_attr="flow")
            internal = [x for v in w for x in (v + ".0", v + ".1")]
            try:
                back = NX.get_condensed_paths([list(internal)])
            except Exception as ex:  # noqa
                back = f"raised {type(ex).__name__}: {ex}"
            tags["node_mode_handover"] += 1
            if back != [w]:
                viol.append({"kind": "node_mode_walk_mismatch", "msg": f"walk {w} (internal {internal}) is handed to the user in node mode as {back}"})
        if w and len(set(w)) < len(w):
            nt += 1
            tags["spliced_closed_walk"] += 1
        if w and max(full.values()) >= 2:
            tags["multiplicity>=2"] += 1
        if len(viol) > 5:
            break
    # two layers: consecutive vectors stacked, plus an all-zero layer
    if len(viol) == 0:
        zero = ({e: 0 for e in st.edges()}, None, None)
        stack = vecs + [zero]
        for i in range(len(stack)):
            a = stack[i]
            b = stack[(i + 1) % len(stack)]
            m = Stub(st, 2)
            sol = {}
            for layer, (full, _, _) in enumerate((a, b)):
                for (u, v), c in full.items():
                    sol[(u, v, layer)] = float(c)
            m.edge_vars_sol = sol
            walks = m.get_solution_walks()
            if len(walks) != 2:
                viol.append({"kind": "walk_mismatch", "msg": f"2 layers gave {len(walks)} walks"})
                break
            for layer, (full, se, te) in enumerate((a, b)):
                if se is None:
                    if walks[layer] != []:
                        viol.append({"kind": "zero_layer_not_empty", "msg": f"all-zero layer returned {walks[layer]}"})
                    else:
                        tags["zero_layer"] += 1
                else:
                    err = check(walks[layer], full, se, te, f"layer {layer} of 2")
                    if err:
                        viol.append({"kind": "walk_mismatch", "msg": err})
            if len(viol) > 5:
                break
    tags["vectors"] += len(vecs)
    return {"v": viol[:3], "nt_n": nt, "tags": dict(tags), "out": f"vecs={min(len(vecs), 50)//10}x"}
