"""C11 - node-weighted solving equals solving the explicitly node-expanded instance."""
import collections
import itertools

from .. import world, drivers, preds, sweep, common, runner
from .. import oracles as O

SPEC = {
    "id": "C11",
    "level": "exploration",
    "design_ref": "DESIGN.md section 5, C11",
    "rule": ("cases = (every class with a node mode: 12 model classes + MinErrorFlow) x (node-weighted instance: shape of W-DAG / W-DIG with node values induced by a flow, its perturbed "
             "variant, and the single-node graph); inside: {all nodes weighted, each single node without the attribute, each single node explicitly ignored, node-level constraint (node list "
             "and edge list form), additional start / end at each inner node (also with node weights that are only explained by a route starting / ending there), error scaling on a node}; oracle: the harness builds the expansion v -> (v|in, v|out) itself (independent code and "
             "names), solves the edge-weighted instance with all original arcs ignored and the translated features, and compares (solved, objective); the node-mode routes must be in original node "
             "names and valid in the original graph; NodeExpandedDiGraph round trips (expand / condense of paths, constraints, elements, starts, ends) are checked for every route of the graph. "
             "non-trivial = distinct (class, instance, variant) where both runs were solved and compared"),
    "assumptions": ["objective compared: number of routes (Min*), solved flag (k-FD / k-cover), total error / slack (LAE / MPE), total change (MinErrorFlow)"],
}

CLASSES = sweep.DAG_CLASSES + sweep.CYC_CLASSES + ["MinErrorFlow"]


def bounds(tier):
    q = tier == "quick"
    return {"dag": "W-DAG(n<=4) x 2 flows" if q else "W-DAG(n<=5, arcs<=6) x 2 flows", "cyclic": "cyclic W-DIG(n<=4, arcs<=5) + named x 1 flow" if q else "cyclic W-DIG(n<=4, arcs<=6)+W-NAMED x 2",
            "missing_attribute_subsets": "size <= 1"}


def cases(tier, seed):
    q = tier == "quick"
    for inst in sweep.dag_instances(tier, seed):
        for cls in sweep.DAG_CLASSES + ["MinErrorFlow"]:
            yield dict(inst, cls=cls)
    for inst in sweep.cyc_instances(tier, seed, per_shape=1 if q else 2):
        for cls in sweep.CYC_CLASSES + ["MinErrorFlow"]:
            yield dict(inst, cls=cls)
    for cls in CLASSES:
        yield {"fam": "cyc" if cls.endswith("Cycles") else "dag", "nodes": ["v"], "arcs": [], "cls": cls, "single": True}
    for inst in (sweep.dag_instances(tier, seed)[::3] + sweep.cyc_instances(tier, seed, per_shape=1)[::3]):
        yield dict(inst, cls="roundtrip")


def expand(nodes, arcs, node_w):
    V = []
    E = []
    for v in nodes:
        V += [v + "|in", v + "|out"]
        E.append([v + "|in", v + "|out", node_w.get(v)])
    for a in arcs:
        E.append([a[0] + "|out", a[1] + "|in", None])
    return V, E


def _obj(cls, obs, rkey):
    if obs["exc"]:
        return ("exc", obs["exc_type"])
    if not obs["solved"]:
        return ("unsolved",)
    if cls == "MinErrorFlow":
        return ("solved", round(float(obs["sol"]["error"]), 5))
    if cls.startswith("Min"):
        return ("solved", len(obs["sol"][rkey]))
    if "LeastAbs" in cls or "MinPathError" in cls:
        return ("solved", round(float(obs["obj"]), 5))
    return ("solved",)


def _observe_mef(inst, kw):
    import flowpaths as fp
    obs = {"exc": None, "exc_type": None, "solved": None, "sol": None, "obj": None, "phase": "construct"}
    try:
        m = fp.MinErrorFlow(drivers.build_graph(inst), flow_attr="flow", solver_options={"threads": 1}, **drivers.decode_kw(kw))
        obs["phase"] = "solve"
        m.solve()
        obs["solved"] = bool(m.is_solved())
        if obs["solved"]:
            obs["sol"] = m.get_solution()
    except Exception as e:  # noqa
        obs["exc"] = common.exc_str(e)
        obs["exc_type"] = type(e).__name__
    return obs


def run(case):
    viol = []
    nt = []
    tags = collections.Counter()
    cls = case["cls"]
    V = case["nodes"]
    A = [(a[0], a[1]) for a in case["arcs"]]
    if cls == "roundtrip":
        import flowpaths as fp
        G = drivers.build_graph(sweep.node_twin({k: case[k] for k in ("fam", "nodes", "arcs")}))
        N = fp.NodeExpandedDiGraph(G, node_flow_attr="flow")
        g = O.STGraph(V, A)
        routes = g.simple_paths() if case["fam"] == "dag" else [[a, b] for a, b in A]
        for p in routes:
            exp = [x for v in p for x in (v + ".0", v + ".1")]
            back = N.get_condensed_paths([exp])[0]
            tags["roundtrip"] += 1
            if back != p:
                viol.append({"kind": "roundtrip_path", "msg": f"condense(expand({p})) = {back}"})
            if any(not N.has_edge(x, y) for x, y in zip(exp[:-1], exp[1:])):
                viol.append({"kind": "roundtrip_path", "msg": f"expanded path {exp} is not a path of the expanded graph"})
            cons_nodes = N.get_expanded_subpath_constraints([list(p)])
            if cons_nodes != [[(v + ".0", v + ".1") for v in p]]:
                viol.append({"kind": "roundtrip_constraint", "msg": f"node constraint {p} expanded to {cons_nodes}"})
            if len(p) >= 2:
                ce = N.get_expanded_subpath_constraints([list(zip(p[:-1], p[1:]))])[0]
                want = []
                for i, v in enumerate(p):
                    want.append((v + ".0", v + ".1"))
                    if i + 1 < len(p):
                        want.append((v + ".1", p[i + 1] + ".0"))
                want = [x for i_, x in enumerate(want) if x not in want[:i_]]   # every element once (a self-loop names its node twice)
                if ce != want:
                    viol.append({"kind": "roundtrip_constraint", "msg": f"edge constraint along {p} expanded to {ce}, expected {want}"})
        for v in V:
            if N.get_expanded_edge(v) != (v + ".0", v + ".1") or N.get_expanded_additional_starts([v]) != [v + ".0"] or N.get_expanded_additional_ends([v]) != [v + ".1"]:
                viol.append({"kind": "roundtrip_element", "msg": f"node {v}: edge {N.get_expanded_edge(v)}, start {N.get_expanded_additional_starts([v])}, end {N.get_expanded_additional_ends([v])}"})
        for (u, v) in A:
            if N.get_expanded_edge((u, v)) != (u + ".1", v + ".0"):
                viol.append({"kind": "roundtrip_element", "msg": f"arc {(u, v)} expands to {N.get_expanded_edge((u, v))}"})
        if set(N.edges_to_ignore) != {(u + ".1", v + ".0") for u, v in A}:
            viol.append({"kind": "roundtrip_element", "msg": f"edges_to_ignore of the expansion = {sorted(N.edges_to_ignore)}"})
        cg = N.get_condensed_graph()
        if set(cg.nodes()) != set(V) or set(cg.edges()) != set(A) or any(cg.nodes[v].get("flow") != G.nodes[v].get("flow") for v in V):
            viol.append({"kind": "roundtrip_graph", "msg": "get_condensed_graph() differs from the original graph"})
        return {"v": viol[:4], "nt": [f"rt|{V}|{A}"] if not viol else None, "tags": dict(tags), "out": "roundtrip"}

    cyc = cls.endswith("Cycles")
    rkey = "walks" if cyc else "paths"
    cover = cls in sweep.COVER
    okey = "cover_type" if cover else "flow_attr_origin"
    ckey = "subset_constraints" if cyc else "subpath_constraints"
    if case.get("single"):
        base = {"fam": case["fam"], "nodes": V, "arcs": [], "node_w": {"v": 3}}
        pert = None
    else:
        inst = {k: case[k] for k in ("fam", "nodes", "arcs")}
        base = sweep.node_twin(inst)
        pert = dict(base, node_w=dict(base["node_w"]))
        pert["node_w"][V[0]] += 1
    key = world.shape_key((len(V), tuple(A))) + "|" + str(sorted(base["node_w"].items())) + "|" + cls
    inner = [v for v in V if any(e[1] == v for e in A) and any(e[0] == v for e in A)]
    g = O.STGraph(V, A)
    width_nodes = None

    variants = []

    def add(name, ninst, nkw, ekw_extra, starts=(), ends=()):
        variants.append((name, ninst, nkw, ekw_extra, list(starts), list(ends)))

    use0 = pert if (pert is not None and cls in sweep.ERRM | {"MinErrorFlow"}) else base
    add("all_weighted", use0, {}, {})
    if not case.get("single"):
        # an extra isolated node (it is a source and a sink: the one-node route through it is a genuine route)
        iso = dict(use0, nodes=list(use0["nodes"]) + ["z9"], node_w=dict(use0["node_w"], z9=2))
        add("isolated_node", iso, {}, {})
    if not case.get("single") and A:
        # the input graph also carries the attribute on its ORIGINAL arcs (a file with both kinds of values): in node mode the arcs
        # are ignored, so nothing may change - a large value on every arc, and a negative one on the first arc
        big = dict(use0, arcs=[[x[0], x[1], 7] for x in use0["arcs"]])
        neg = dict(use0, arcs=[[x[0], x[1], (-2 if i == 0 else None)] for i, x in enumerate(use0["arcs"])])
        add("stray_arc_values=7", big, {}, {})
        add("stray_arc_value=-2", neg, {}, {})
        if cls in ("MinFlowDecomp", "MinFlowDecompCycles"):
            for oname, oo in (("guessed", {"optimize_with_guessed_weights": True, "optimize_with_greedy": False}),
                              ("mingenset", {"use_min_gen_set_lowerbound": True, "optimize_with_greedy": False})):
                if cyc:
                    oo = {k_: v_ for k_, v_ in oo.items() if k_ != "optimize_with_greedy"}
                add(f"stray_arc_values=7,{oname}", big, {"optimization_options": dict(oo)}, {"optimization_options": dict(oo)})
                add(f"stray_arc_value=-2,{oname}", neg, {"optimization_options": dict(oo)}, {"optimization_options": dict(oo)})
            # a value-less source u, its successor v carrying 2 less than it needs, and -2 on the arc (u, v): explained only if the stray -2 is
            # taken for a route weight (the guessed weights are read from every arc that has the attribute)
            srcs = [v_ for v_ in V if not any(e_[1] == v_ for e_ in A)]
            # (DAG class only: the instance is infeasible by construction, and the cyclic minimum search spends minutes proving that for every k)
            for (u_, v_) in ([] if cyc else [e_ for e_ in A if e_[0] in srcs][:2]):
                if use0["node_w"][v_] is None or use0["node_w"][u_] is None or use0["node_w"][v_] - use0["node_w"][u_] < 3:
                    continue
                d = dict(use0, node_w=dict(use0["node_w"]), arcs=[[x[0], x[1], (-2 if (x[0], x[1]) == (u_, v_) else None)] for x in use0["arcs"]])
                d["node_w"][v_] -= d["node_w"][u_] + 2   # what the other routes bring, minus 2
                d["node_w"][u_] = None
                oo = {"optimize_with_guessed_weights": True}
                add(f"stray_negative_route_weight:{u_}{v_}", d, {"optimization_options": dict(oo)}, {"optimization_options": dict(oo)})
    if not case.get("single"):
        for v in V[:3]:
            d = dict(use0, node_w=dict(use0["node_w"]))
            d["node_w"][v] = None
            if not cover:  # covers have no weights: 'a node without the attribute' does not exist for them
                add(f"absent:{v}", d, {}, {})
            add(f"ignored:{v}", use0, {"elements_to_ignore": [v]}, {"elements_to_ignore": [[v + "|in", v + "|out"]]})
        if cls != "MinErrorFlow":
            p2 = None
            for (a, b) in A:
                p2 = [a, b]
                break
            if p2:
                add("node_constraint", use0, {ckey: [list(p2)]}, {ckey: [[[p2[0] + "|in", p2[0] + "|out"], [p2[1] + "|in", p2[1] + "|out"]]]})
                if not cyc:
                    # node lengths + length coverage: in the expansion the node arcs carry the node lengths, the connecting arcs length 0
                    nl = {v: 1 + 3 * (i % 2) for i, v in enumerate(V)}
                    for covl in (0.5, 0.8):
                        add(f"node_constraint,coverage_length={covl}", dict(use0, node_lengths=nl),
                            {ckey: [list(p2)], "subpath_constraints_coverage_length": covl, "length_attr": "length"},
                            {ckey: [[[p2[0] + "|in", p2[0] + "|out"], [p2[0] + "|out", p2[1] + "|in"], [p2[1] + "|in", p2[1] + "|out"]]],
                             "subpath_constraints_coverage_length": covl, "length_attr": "length", "_node_lengths": nl})
                    # one node of the constraint WITHOUT the length attribute (documented: counts with length 1): the expansion says 1 explicitly.
                    # Lengths 3 elsewhere, so that 'absent' read as 0 or as the neighbours' value moves the coverage threshold.
                    for miss in p2:
                        nl3 = {v: 3 for v in V if v != miss}
                        nl3_exp = dict(nl3)
                        nl3_exp[miss] = 1
                        for covl in (0.8, 1.0):
                            for ign in ((), (miss,)):
                                add(f"node_constraint,coverage_length={covl},no_length:{miss}" + (f",ignored:{miss}" if ign else ""), dict(use0, node_lengths=nl3),
                                    dict({ckey: [list(p2)], "subpath_constraints_coverage_length": covl, "length_attr": "length"}, **({"elements_to_ignore": list(ign)} if ign else {})),
                                    dict({ckey: [[[p2[0] + "|in", p2[0] + "|out"], [p2[0] + "|out", p2[1] + "|in"], [p2[1] + "|in", p2[1] + "|out"]]],
                                          "subpath_constraints_coverage_length": covl, "length_attr": "length", "_node_lengths": nl3_exp},
                                         **({"elements_to_ignore": [[miss + "|in", miss + "|out"]]} if ign else {})))
                    # unit node lengths, a two-arc constraint a->b->c given in edge form, its middle node ignored
                    n1 = {v: 1 for v in V}
                    two = [(a_, b_, c_) for (a_, b_) in A for (b2_, c_) in A if b2_ == b_ and c_ != a_][:1]
                    for (a_, b_, c_) in two:
                        def x_(v_, s_):
                            return v_ + "|" + s_
                        add(f"edge_constraint2,coverage_length=0.6,ignored:{b_}", dict(use0, node_lengths=n1),
                            {ckey: [[[a_, b_], [b_, c_]]], "subpath_constraints_coverage_length": 0.6, "length_attr": "length", "elements_to_ignore": [b_]},
                            {ckey: [[[x_(a_, "in"), x_(a_, "out")], [x_(a_, "out"), x_(b_, "in")], [x_(b_, "in"), x_(b_, "out")], [x_(b_, "out"), x_(c_, "in")], [x_(c_, "in"), x_(c_, "out")]]],
                             "subpath_constraints_coverage_length": 0.6, "length_attr": "length", "_node_lengths": n1,
                             "elements_to_ignore": [[x_(b_, "in"), x_(b_, "out")]]})
                    add(f"edge_constraint,coverage_length=0.6,ignored:{p2[1]}", dict(use0, node_lengths=n1),
                        {ckey: [[[p2[0], p2[1]]]], "subpath_constraints_coverage_length": 0.6, "length_attr": "length", "elements_to_ignore": [p2[1]]},
                        {ckey: [[[p2[0] + "|in", p2[0] + "|out"], [p2[0] + "|out", p2[1] + "|in"], [p2[1] + "|in", p2[1] + "|out"]]],
                         "subpath_constraints_coverage_length": 0.6, "length_attr": "length", "_node_lengths": n1,
                         "elements_to_ignore": [[p2[1] + "|in", p2[1] + "|out"]]})
                # an edge-form constraint that is NOT a contiguous path: two arcs leaving the same node (for the cyclic classes constraints are
                # sets anyway). Expansion: both end nodes and the connecting arc of every arc, each element once; coverage 0.75 of those 5
                fork = [(a_, b_, c_) for (a_, b_) in A for (a2_, c_) in A if a2_ == a_ and c_ != b_ and a_ != b_ and a_ != c_][:1]
                for (a_, b_, c_) in fork:
                    covk = "subset_constraints_coverage" if cyc else "subpath_constraints_coverage"
                    add(f"edge_constraint_fork,coverage=0.75:{a_}{b_}{c_}", use0, {ckey: [[[a_, b_], [a_, c_]]], covk: 0.75},
                        {ckey: [[[a_ + "|in", a_ + "|out"], [a_ + "|out", b_ + "|in"], [b_ + "|in", b_ + "|out"], [a_ + "|out", c_ + "|in"], [c_ + "|in", c_ + "|out"]]], covk: 0.75})
                add("edge_constraint", use0, {ckey: [[[p2[0], p2[1]]]]},
                    {ckey: [[[p2[0] + "|in", p2[0] + "|out"], [p2[0] + "|out", p2[1] + "|in"], [p2[1] + "|in", p2[1] + "|out"]]]})
        # MinFlowDecomp takes additional starts / ends in node mode only: its explicit expansion gets a global source S* (sink T*)
        # node, split like every node, whose own arc and whose arcs to the starts (from the ends) are ignored
        glob = cls in ("MinFlowDecomp", "MinFlowDecompCycles")
        if cls in sweep.ACCEPTS_STARTS | {"MinErrorFlow", "MinFlowDecomp", "MinFlowDecompCycles"}:
            for v in inner[:2]:
                add(f"add_start:{v}", use0, {"additional_starts": [v]}, {"_global_starts" if glob else "additional_starts": [v + "|in"]}, starts=[v])
                add(f"add_end:{v}", use0, {"additional_ends": [v]}, {"_global_ends" if glob else "additional_ends": [v + "|out"]}, ends=[v])
            # ... and instances that NEED the additional start / end: a route of weight 2 that begins (ends) at the inner node is added
            # to the node weights, so the weights are only explained if the start (end) is really wired in
            def _bfs(src, fwd):
                prev = {src: None}
                queue = [src]
                while queue:
                    x = queue.pop(0)
                    nxt = [b for (a, b) in A if a == x] if fwd else [a for (a, b) in A if b == x]
                    if not nxt and x != src:
                        path = []
                        while x is not None:
                            path.append(x)
                            x = prev[x]
                        return path
                    for y in nxt:
                        if y not in prev:
                            prev[y] = x
                            queue.append(y)
                return None
            for v in inner[:2]:
                for fwd, nm_, kwn in ((True, "need_start", "additional_starts"), (False, "need_end", "additional_ends")):
                    pth = _bfs(v, fwd)
                    if not pth:
                        continue
                    d = dict(use0, node_w=dict(use0["node_w"]))
                    for x in set(pth):
                        d["node_w"][x] += 2
                    add(f"{nm_}:{v}", d, {kwn: [v]}, {("_global_" + kwn.split("_")[1]) if glob else kwn: [v + ("|in" if fwd else "|out")]},
                        starts=[v] if fwd else [], ends=[] if fwd else [v])
            if len(inner) >= 2 and glob:
                add("add_start+end", use0, {"additional_starts": [inner[0]], "additional_ends": [inner[1]]},
                    {"_global_starts": [inner[0] + "|in"], "_global_ends": [inner[1] + "|out"]}, starts=[inner[0]], ends=[inner[1]])
        if cls in sweep.ERRM | {"MinErrorFlow"}:
            # scale 0 == ignored; for the k-models also with k=None (k is then derived from the width of the NON-ignored elements)
            for v in V[:3]:
                add(f"scale0:{v}", use0, {"error_scaling": [[v, 0]]}, {"error_scaling": [[[v + "|in", v + "|out"], 0]]})
            add("scale", use0, {"error_scaling": [[V[0], 0.5]]}, {"error_scaling": [[[V[0] + "|in", V[0] + "|out"], 0.5]]})

    for name, ninst, nkw, ekw_extra, starts, ends in variants:
        EV, EE = expand(ninst["nodes"], ninst["arcs"], ninst["node_w"])
        orig_arcs_exp = [[a[0] + "|out", a[1] + "|in"] for a in ninst["arcs"]]
        if ekw_extra.get("_global_starts"):
            EV = EV + ["S*|in", "S*|out"]
            EE = EE + [["S*|in", "S*|out", None]] + [["S*|out", x, None] for x in ekw_extra["_global_starts"]]
            orig_arcs_exp += [["S*|in", "S*|out"]] + [["S*|out", x] for x in ekw_extra["_global_starts"]]
        if ekw_extra.get("_global_ends"):
            EV = EV + ["T*|in", "T*|out"]
            EE = EE + [["T*|in", "T*|out", None]] + [[x, "T*|in", None] for x in ekw_extra["_global_ends"]]
            orig_arcs_exp += [["T*|in", "T*|out"]] + [[x, "T*|in"] for x in ekw_extra["_global_ends"]]
        einst = {"fam": ninst["fam"], "nodes": EV, "arcs": EE}
        if ekw_extra.get("_node_lengths"):
            einst["lengths"] = {f"{a[0]}|{a[1]}": 0 for a in EE}
            for v_, l_ in ekw_extra["_node_lengths"].items():
                einst["lengths"][f"{v_}|in|{v_}|out"] = l_
        absent_nodes = [[v + "|in", v + "|out"] for v in ninst["nodes"] if ninst["node_w"].get(v) is None]
        # k for k-models: covering number of the weighted, non-ignored nodes (error / cover models), decomposition optimum for FD
        ign_nodes = set(nkw.get("elements_to_ignore", [])) | {v for v in ninst["nodes"] if ninst["node_w"].get(v) is None}
        tg = [(v + "|in", v + "|out") for v in ninst["nodes"] if v not in ign_nodes]
        ge = O.STGraph(EV, [(a[0], a[1]) for a in EE], [s + "|in" for s in starts], [e + "|out" for e in ends])
        w = O.min_cover(ge, tg)
        if not w:
            continue
        kws = []
        if cls == "MinErrorFlow":
            kws = [{"weight_type": "int"}]
        elif cover:
            kws = [{"k": w}, {"k": max(1, w - 1)}] if cls.startswith("k") else [{}]
        elif cls.startswith("k"):
            ks = [w, w + 1] if cls not in ("kLeastAbsErrors", "kLeastAbsErrorsCycles") else [1, min(2, w + 1)]
            kws = [{"k": k, "weight_type": "int"} for k in ks]
            if name.startswith("scale0") or name.startswith("ignored"):
                kws.append({"k": None, "weight_type": "int"})
        else:
            kws = [{"weight_type": "int"}, {"weight_type": "float"}]
        for kw0 in kws:
            runner.kick()   # the watchdog is per solve pair, not per case (a case runs dozens of variants)
            nkw_full = dict(kw0)
            nkw_full[okey] = "node"
            nkw_full.update(nkw)
            ekw = dict(kw0)
            ekw["elements_to_ignore"] = orig_arcs_exp + absent_nodes + list(ekw_extra.get("elements_to_ignore", []))
            for k_, v_ in ekw_extra.items():
                if k_ != "elements_to_ignore" and not k_.startswith("_global") and not k_.startswith("_node_lengths"):
                    ekw[k_] = v_
            if cls == "MinErrorFlow":
                on = _observe_mef(ninst, nkw_full)
                oe = _observe_mef(einst, ekw)
            else:
                on = drivers.observe(dict(ninst, cls=cls, kw=nkw_full))
                oe = drivers.observe(dict(einst, cls=cls, kw=ekw))
            tags[f"variant:{name.split(':')[0]}"] += 1
            a_, b_ = _obj(cls, on, rkey), _obj(cls, oe, rkey)
            ctx = f"{cls}(node mode, {name}, {kw0})"
            if a_ != b_ and a_[0] == "solved" and b_[0] == "solved" and cls != "MinErrorFlow":
                # trusted-base guard (drivers.objective_without_presolve): two different 'optima' -> ask both sides again without presolve
                on2 = drivers.objective_without_presolve(dict(ninst, cls=cls, kw=nkw_full))
                oe2 = drivers.objective_without_presolve(dict(einst, cls=cls, kw=ekw))
                if _obj(cls, on2, rkey) == _obj(cls, oe2, rkey):
                    tags["highs_presolve_wrong_optimum"] += 1
                    continue
            if a_ != b_:
                detail = on["exc"] if on["exc"] else ""
                viol.append({"kind": "node_mode_differs_from_expansion", "variant": name.split(":")[0], "msg": f"{ctx}: node mode {a_} {detail}, explicit expansion {b_}",
                             "node_weights": ninst["node_w"], "node_kw": nkw_full, "expanded_kw": ekw})
                continue
            if on["solved"] and cls != "MinErrorFlow":
                routes = on["sol"].get(rkey)
                errs = preds.route_errors(ninst, routes, cyc, starts, ends)
                if errs:
                    viol.append({"kind": "node_mode_invalid_routes", "variant": name.split(":")[0], "msg": f"{ctx}: {errs[0]}", "routes": routes})
                    continue
                if cls in sweep.FD:
                    errs = preds.explain_errors(ninst, routes, on["sol"]["weights"], "node", list(ign_nodes), kw0["weight_type"])
                    if errs:
                        viol.append({"kind": "node_mode_not_explained", "msg": f"{ctx}: {errs[0]}", "routes": routes, "weights": on["sol"]["weights"]})
                        continue
                    # the same answer read with the public 'remove empty routes' flag: one-node routes are not empty
                    import inspect
                    gs = on["model"].get_solution
                    flag = [p_ for p_ in ("remove_empty_paths", "remove_empty_walks") if p_ in inspect.signature(gs).parameters]
                    if flag:
                        sol_f = gs(**{flag[0]: True})
                        errs = preds.explain_errors(ninst, sol_f[rkey], sol_f["weights"], "node", list(ign_nodes), kw0["weight_type"])
                        tags["filtered_solution_reads"] += 1
                        if errs:
                            viol.append({"kind": "node_mode_not_explained", "msg": f"{ctx}, get_solution({flag[0]}=True): {errs[0]}", "routes": sol_f[rkey], "weights": sol_f["weights"]})
                            continue
                if cover:
                    errs = preds.cover_errors(ninst, routes, "node", list(ign_nodes))
                    if errs:
                        viol.append({"kind": "node_mode_not_covering", "msg": f"{ctx}: {errs[0]}", "routes": routes})
                        continue
            if on["solved"] and cls == "MinErrorFlow":
                H = on["sol"]["graph"]
                if set(H.nodes()) != set(ninst["nodes"]) or set(H.edges()) != {(a[0], a[1]) for a in ninst["arcs"]}:
                    viol.append({"kind": "node_mode_invalid_routes", "msg": f"{ctx}: corrected graph is not over the original nodes/arcs: {sorted(H.nodes())}"})
                    continue
            if on["solved"]:
                nt.append(f"{key}|{name}|{kw0}")
        if len(viol) > 5:
            break
    seen = collections.Counter()
    out = []
    for v in viol:
        seen[v["kind"] + str(v.get("variant"))] += 1
        if seen[v["kind"] + str(v.get("variant"))] <= 1:
            out.append(v)
    return {"v": out[:5], "nt": nt, "tags": dict(tags), "out": "viol" if viol else "ok"}
