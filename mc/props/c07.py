"""C07 - k-Least-Absolute-Errors returns a true optimum with a consistent objective (DAG and cyclic)."""
import collections
import itertools

from .. import world, drivers, preds, fit
from .. import oracles as O

SPEC = {
    "id": "C07",
    "level": "exploration",
    "design_ref": "DESIGN.md section 5, C07",
    "rule": ("cases = (shape; DAG model on W-DAG, cyclic model on W-DIG/W-NAMED) x (every weight vector in the alphabet, not all zero); inside: "
             "k in {1,2} (thorough 3 on small shapes) x weight_type x feature variants {plain, each single ignored arc, error_scaling 0.5 / 0 on "
             "each single arc, additional start / end at each inner node, solution_weights_superset}; judged: k routes, valid routes, reported "
             "objective and per-arc errors == recomputation, is_valid_solution(), and no better (routes, weights) exists by brute force; "
             "non-trivial = distinct (shape, weights, k, variant) solved and compared with an oracle optimum. Witness family 'spin': one walk of weight "
             "0.5 / 0.25 round a 2-cycle r = 2..8 times before a heavy ignored (or scale-0) arc: the optimum 0 is written down, the model must reach it"),
    "assumptions": ["int optimum: weights in 0..max f suffice (a larger weight only overshoots)",
                    "float optimum: attained at a vertex of the arrangement {residual=0} U {w_i=0}; enumerated with exact Fractions",
                    "cyclic oracle: walk multiplicity vectors with <= B traversals per arc, B >= every multiplicity the library used ('no better solution with <= B traversals')"],
}


def bounds(tier):
    if tier == "quick":
        return {"dag": "W-DAG shapes with <=4 arcs, weights {0..3}^E", "cyclic": "cyclic W-DIG(n<=4) shapes with <=4 arcs, weights {0,1,3}^E; named shapes with all-ones / one heavy arc",
                "k": [1, 2], "B": 2}
    return {"dag": "W-DAG(n<=5) shapes with <=5 arcs, weights {0..3}^E (|E|<=4) / {0,1,3}^E (|E|=5)", "cyclic": "cyclic W-DIG(n<=4) shapes with <=5 arcs, weights {0,1,3}^E; named shapes",
            "k": [1, 2, 3], "B": 3}


def cases(tier, seed):
    q = tier == "quick"
    amax = 4 if q else 5
    # a stem carrying 0 into two long branches carrying 10: with the given weights [12, 12] both branches are worth taking although the
    # stem then sees 24 (more than k * max flow)
    yield {"fam": "dag", "nodes": ["a", "b", "c", "d", "e", "f"], "arcs": [["a", "b", 0], ["b", "c", 10], ["c", "d", 10], ["b", "e", 10], ["e", "f", 10]], "full": True, "kmax": 2, "B": 1}
    for idx, shp in enumerate(world.dag_shapes(4 if q else 5)):
        if len(shp[1]) > amax:
            continue
        names, arcs = world.present(shp, seed, idx)
        alpha = (0, 1, 2, 3) if len(arcs) <= 4 else (0, 1, 3)
        for i, fv in enumerate(itertools.product(alpha, repeat=len(arcs))):
            if max(fv) == 0:
                continue
            yield {"fam": "dag", "nodes": names, "arcs": [[u, v, w] for (u, v), w in zip(arcs, fv)], "full": i % 5 == 0, "kmax": 2 if (q or len(arcs) > 4) else 3,
                   "B": 1}
    for idx, shp in enumerate(world.dig_shapes(4, amax)):
        if world.is_acyclic(*shp):
            continue
        names, arcs = world.present(shp, seed, idx)
        for i, fv in enumerate(itertools.product((0, 1, 3), repeat=len(arcs))):
            if max(fv) == 0:
                continue
            yield {"fam": "cyc", "nodes": names, "arcs": [[u, v, w] for (u, v), w in zip(arcs, fv)], "full": i % 7 == 0, "kmax": 2, "B": 2 if q else 3}
    # a single walk of weight 1 that goes round a cycle r times, r in {2, 3, 4} (multiplicities that are and are not powers of two):
    # the optimum is error / slack 0 with k = 1
    for idx, shp in enumerate(world.dig_shapes(4, 4)):
        if world.is_acyclic(*shp):
            continue
        names, arcs = world.present(shp, seed, idx)
        g_ = O.STGraph(names, arcs)
        vs = sorted(set(v for v, _, _ in O.walk_vectors(g_, {e: 4 for e in g_.arcs})))
        picked = 0
        for v in vs:
            if max(v) in (2, 3, 4) and min(v) >= 1 and picked < 4:
                picked += 1
                yield {"fam": "cyc", "nodes": names, "arcs": [[a, b, w] for (a, b), w in zip(arcs, v)], "full": False, "kmax": 1, "B": 4}
    # witness family "spin": one walk of FRACTIONAL weight w going round a 2-cycle r times, followed by a heavy arc that is ignored (or scaled
    # by 0). The walk s b (x b)^r c d with weight w explains every judged arc exactly, so the optimum is 0 - written down, not searched.
    # (The heavy arc lies in the reach of the cycle arcs: the model's per-arc repetition cap, the largest value in the arc's reach, is
    # 100 there, so the known finding D10-LAE does not apply; what is decided is that the repetition variables can really count to r.)
    for w in (0.5, 0.25):
        for r in range(2, 9):
            for how in ("ignore", "scale0"):
                yield {"fam": "cyc", "spin": {"w": w, "r": r, "how": how}, "nodes": ["s", "b", "x", "c", "d"],
                       "arcs": [["s", "b", w], ["b", "x", r * w], ["x", "b", r * w], ["b", "c", w], ["c", "d", 100]], "full": False, "kmax": 1, "B": r}
    for idx, shp in enumerate(world.named_shapes()):
        names, arcs = world.present(shp, seed, 1000 + idx)
        if len(arcs) > 7:
            continue
        vecs = [tuple(1 for _ in arcs)] + [tuple(3 if j == i else 1 for j in range(len(arcs))) for i in range(0 if q else len(arcs))][:3]
        for fv in vecs:
            yield {"fam": "cyc", "nodes": names, "arcs": [[u, v, w] for (u, v), w in zip(arcs, fv)], "full": False, "kmax": 1 if len(arcs) > 5 else 2, "B": 2}


def routes_and_cols(case, starts=(), ends=(), B=1, elements=None):
    """route family as columns over `elements` (arcs)"""
    V = case["nodes"]
    E = [(a[0], a[1]) for a in case["arcs"]]
    g = O.STGraph(V, E, starts, ends)
    if case["fam"] == "dag":
        cols = []
        for p in g.simple_paths():
            pa = O.path_arcs(p)
            cols.append(tuple(1 if e in pa else 0 for e in E))
        cols = sorted(set(cols))
    else:
        cols = sorted(set(v for v, _, _ in O.walk_vectors(g, {e: B for e in E})))
        # single-node walks (a node that is both a start and an end) have the zero vector: irrelevant for arcs
    if elements is not None:
        idx = [E.index(e) for e in elements]
        cols = sorted(set(tuple(c[i] for i in idx) for c in cols))
    return cols


def run(case):
    viol = []
    nt = []
    tags = collections.Counter()
    fam = case["fam"]
    cyc = fam == "cyc"
    cls = "kLeastAbsErrorsCycles" if cyc else "kLeastAbsErrors"
    rkey = "walks" if cyc else "paths"
    V = case["nodes"]
    E = [(a[0], a[1]) for a in case["arcs"]]
    f = {(a[0], a[1]): a[2] for a in case["arcs"]}
    F = max(f.values())
    key = world.shape_key((len(V), tuple(E))) + "|" + ",".join(str(f[e]) for e in E)
    G = drivers.build_graph(case)
    inner = [v for v in V if any(a[1] == v for a in E) and any(a[0] == v for a in E)]
    if case.get("spin"):
        sp = case["spin"]
        kw = {"k": 1, "weight_type": "float"}
        if sp["how"] == "ignore":
            kw["elements_to_ignore"] = [["c", "d"]]
        else:
            kw["error_scaling"] = [[["c", "d"], 0]]
        obs = drivers.observe(dict(case, cls=cls, kw=kw), G)
        tags["cyc:spin"] += 1
        ctx = f"{cls}(k=1, float, {kw}) on s->b {sp['w']}, b<->x {sp['r'] * sp['w']}, b->c {sp['w']}, c->d 100"
        if obs["exc"] or not obs["solved"]:
            viol.append({"kind": "lae_unsolved", "msg": f"{ctx}: exc={obs['exc']} solved={obs['solved']}; k-LAE is always feasible"})
        else:
            routes = obs["sol"].get(rkey)
            arc_amt, _ = preds.traversals(routes, obs["sol"]["weights"])
            rec = sum(abs(f[e] - arc_amt.get(e, 0)) for e in E if e != ("c", "d"))
            errs = preds.route_errors(case, routes, cyc, (), ())
            if errs:
                viol.append({"kind": "lae_invalid_solution", "msg": f"{ctx}: {errs[0]}"})
            elif abs(obs["obj"] - rec) > 1e-6:
                viol.append({"kind": "lae_objective_mismatch", "msg": f"{ctx}: get_objective_value()={obs['obj']} but the error recomputed from the returned walk is {rec}"})
            elif rec > 1e-6:
                o_np = drivers.objective_without_presolve(dict(case, cls=cls, kw=kw), G)
                if o_np["solved"] and o_np["obj"] is not None and o_np["obj"] <= 1e-6:
                    tags["highs_presolve_wrong_optimum"] += 1
                else:
                    viol.append({"kind": "lae_not_optimal", "msg": f"{ctx}: total error {rec}, but the walk s b (x b)^{sp['r']} c d with weight {sp['w']} has total error 0",
                                 "solution": {rkey: routes, "weights": obs["sol"]["weights"]}})
            else:
                nt.append(key + "|spin|" + sp["how"])
        return {"v": viol[:4], "nt": nt, "tags": dict(tags), "out": "spin:" + ("viol" if viol else "ok")}

    def one(k, wt, variant, kw_extra, ignored=(), scaling=None, starts=(), ends=(), pool=None):
        kw = {"k": k, "weight_type": wt}
        kw.update(kw_extra)
        if variant == "solve_twice":
            obs = drivers.observe(dict(case, cls=cls, kw=kw, solve_twice=True), G)
        elif variant.startswith("noise"):
            # solver answers within tolerance: every value read from the solver shifted by -/+ 5e-10
            from .. import faults
            with faults.ValueNoise(-5e-10 if variant.endswith("-") else 5e-10):
                obs = drivers.observe(dict(case, cls=cls, kw=kw), G)
        else:
            obs = drivers.observe(dict(case, cls=cls, kw=kw), G)
        tags[f"{fam}:{variant}"] += 1
        ctx = f"{cls}(k={k}, {wt}, {variant}={kw_extra})"
        if obs["exc"]:
            viol.append({"kind": "lae_exception", "msg": f"{ctx} raised {obs['exc']} in {obs['phase']}"})
            return
        if not obs["solved"]:
            viol.append({"kind": "lae_unsolved", "msg": f"{ctx}: not solved (status {drivers.status_of(obs['model'])}); k-LAE is always feasible"})
            return
        sol = obs["sol"]
        routes = sol.get(rkey)
        exact = not starts and not ends and pool is None
        errs = preds.shape_errors(sol, rkey, k=(k if pool is None else len(pool)), exact_k=exact, weight_type=wt)
        if not errs:
            errs += preds.route_errors(case, routes, cyc, starts, ends)
        if errs:
            viol.append({"kind": "lae_invalid_solution", "msg": f"{ctx}: {errs[0]}", "solution": {rkey: routes, "weights": sol.get("weights")}})
            return
        elements = [e for e in E if e not in ignored and not (scaling and scaling.get(e, 1) == 0)]
        sc = [(scaling or {}).get(e, 1) for e in elements]
        arc_amt, _ = preds.traversals(routes, sol["weights"])
        rec_err = {e: abs(f[e] - arc_amt.get(e, 0)) for e in elements}
        rec_obj = sum(s * rec_err[e] for e, s in zip(elements, sc))
        tol = 1e-6 * (1 + abs(rec_obj))
        if abs(obs["obj"] - rec_obj) > tol:
            viol.append({"kind": "lae_objective_mismatch", "scaled": bool(scaling), "msg": f"{ctx}: get_objective_value()={obs['obj']} but the (scaled) error recomputed from the returned routes is {rec_obj}",
                         "solution": {rkey: routes, "weights": sol.get("weights")}})
        ee = sol.get("edge_errors")
        if not isinstance(ee, dict):
            viol.append({"kind": "lae_edge_errors_missing", "msg": f"{ctx}: no edge_errors dict in the solution"})
        else:
            for e in elements:
                if e not in ee or abs(ee[e] - rec_err[e]) > 1e-6 * (1 + rec_err[e]):
                    viol.append({"kind": "lae_edge_error_mismatch", "msg": f"{ctx}: edge_errors[{e}]={ee.get(e)} but recomputed |f - sum w| = {rec_err[e]}"})
                    break
        try:
            valid = obs["model"].is_valid_solution()
        except Exception as ex:
            valid = f"raised {type(ex).__name__}"
        if valid is not True:
            viol.append({"kind": "lae_self_check_rejects", "scaled": bool(scaling), "msg": f"{ctx}: is_valid_solution() = {valid} on the model's own optimum"})
        # optimality
        used = max([1] + [c for r in routes for c in collections.Counter(zip(r[:-1], r[1:])).values()])
        B = max(case["B"], used)
        full_cols = routes_and_cols(case, starts, ends, B, None)
        if not full_cols:
            return
        idx = [E.index(e) for e in elements]
        fv = [f[e] for e in elements]

        def best_of(fcols):
            cols = sorted(set(tuple(c[i] for i in idx) for c in fcols))
            if not cols:
                return None, None, cols
            if pool is not None:
                b, w = fit.lae_opt(cols, fv, sc, k, wt, F, weights_pool=pool, max_used=k)
            else:
                b, w = fit.lae_opt(cols, fv, sc, k, wt, F)
            return b, w, cols
        best, wit, cols = best_of(full_cols)
        if best is None:
            return
        tolb = 1e-6 * (1 + abs(best))
        if rec_obj > best + tolb and not variant.startswith("noise") and variant != "solve_twice":
            o_np = drivers.objective_without_presolve(dict(case, cls=cls, kw=kw), G)
            if o_np["solved"] and o_np["obj"] is not None and o_np["obj"] <= best + tolb:
                tags["highs_presolve_wrong_optimum"] += 1
                return
        if rec_obj > best + tolb:
            kind = "lae_not_optimal"
            if cyc:
                # is the gap explained by the model's per-arc repetition cap (largest weight in the arc's reach)?
                from ..known import _reach_caps
                import math
                caps = _reach_caps(case)
                capped = [c for c in full_cols if all(c[j] <= math.floor(caps[E[j]] + 1e-9) for j in range(len(E)))]
                bc, _, _ = best_of(capped)
                if bc is None or rec_obj <= bc + 1e-6 * (1 + abs(bc)):
                    kind = "lae_not_optimal_beyond_cap"
            viol.append({"kind": kind, "used_mult": used, "msg": f"{ctx}: total error {rec_obj} but routes {wit} achieve {best} (family: <= {B} traversals per arc)",
                         "solution": {rkey: routes, "weights": sol.get("weights")}, "witness": wit, "witness_cols": [list(cols[j]) for j in wit["routes"]], "route_columns_over": [list(e) for e in elements]})
        elif rec_obj < best - tolb:
            viol.append({"kind": "oracle_beaten", "msg": f"{ctx}: library error {rec_obj} < brute-force optimum {best}: reference family too small?",
                         "solution": {rkey: routes, "weights": sol.get("weights")}})
        else:
            nt.append(f"{key}|{ctx}")

    for k in range(1, case["kmax"] + 1):
        for wt in ("int", "float"):
            if wt == "float" and k >= 3:
                continue
            one(k, wt, "plain", {})
            if len(viol) > 4:
                return _ret(viol, nt, tags)
    one(min(2, case["kmax"]), "int", "solve_twice", {})
    one(1, "int", "noise-", {})
    one(min(2, case["kmax"]), "int", "noise+", {})
    if not case["full"]:
        return _ret(viol, nt, tags)
    k = min(2, case["kmax"])
    for e in E:
        if len(E) > 1 and any(f[x] for x in E if x != e):
            one(k, "int", "ignore", {"elements_to_ignore": [list(e)]}, ignored=[e])
        one(k, "int", "scale", {"error_scaling": [[list(e), 0.5]]}, scaling={e: 0.5})
        one(1, "float", "scale", {"error_scaling": [[list(e), 0.5]]}, scaling={e: 0.5})
        if len(E) > 1 and any(f[x] for x in E if x != e):
            one(k, "int", "scale0", {"error_scaling": [[list(e), 0]]}, scaling={e: 0})
        if len(viol) > 4:
            return _ret(viol, nt, tags)
    for v in inner:
        one(k, "int", "add_start", {"additional_starts": [v]}, starts=[v])
        one(k, "int", "add_end", {"additional_ends": [v]}, ends=[v])
        if len(viol) > 4:
            return _ret(viol, nt, tags)
    if not cyc:
        pool = sorted({x for x in f.values() if x > 0}) + [F + 2]
        one(min(k, len(pool)), "int", "weights_superset", {"solution_weights_superset": pool}, pool=pool)
        # two equal weights above every flow value: routes sharing an arc put more than k * max flow on it
        pool2 = [F + 2, F + 2]
        one(2, "int", "weights_superset_heavy", {"solution_weights_superset": pool2}, pool=pool2)
    return _ret(viol, nt, tags)


def _ret(viol, nt, tags):
    seen = collections.Counter()
    out = []
    for v in viol:
        seen[v["kind"]] += 1
        if seen[v["kind"]] <= 2:
            out.append(v)
    return {"v": out, "nt": nt, "tags": dict(tags), "out": "viol:" + ",".join(sorted(seen)) if viol else "ok"}
