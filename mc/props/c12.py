"""C12 - MILP building blocks encode exactly the relation they name.

Part A (E-inputs): exactness of the product / piecewise helpers - for every bound pair and every admissible
value pair, fix the factors, then minimise AND maximise the product variable in a wide box: both optima must
equal the true product (so no other product value is admitted) and the model must be feasible.
Part B (E-states): explicit-state BFS over a dictionary *model* of the wrapper (variables with bounds,
current objective, two pending queues); every transition of the model's reachable state graph is replayed
as an operation history on a fresh real SolverWrapper, and after every optimize the column bounds read back
from HiGHS, the status, the optimum and the values must equal the model's prediction."""
import collections
import itertools
import json
import math

SPEC = {
    "id": "C12",
    "level": "model_checking",
    "design_ref": "DESIGN.md section 5, C12",
    "rule": ("Part B: states = canonical dictionary-model states (vars with (lb,ub,type), objective, pending fix/lb queues) reached by "
             "BFS over the alphabet {addI, addC, obj(pattern,sense), fix(v,val), lb(v,val), opt}; one case per model transition "
             "(shortest history to the state + the operation + a closing optimize), replayed on the real wrapper under every wrapper configuration "
             "of {default, time_limit, time_limit + use_also_custom_timeout} (the latter two for histories with >= 2 optimize calls); Part A: one case per "
             "(helper, ub, lb) enumerating every admissible (integer value, continuous grid value) and every range list; "
             "non-trivial = distinct replayed history containing >=1 queue operation or objective replacement, or a product case with both factors non-zero"),
    "assumptions": [
        "helper preconditions as documented/used by the models: binary in {0,1}; lb<=continuous<=ub; 0<=integer<=ub; x inside the union of the (disjoint) ranges",
        "HiGHS solves these <=12-variable bound-only / single-block models exactly (tolerance 1e-6 in comparisons)",
        "a fix and a lower-bound update queued for the same variable in the same batch are excluded (the order is unspecified)",
    ],
}

GRID = lambda lb, ub: sorted({lb, lb + (ub - lb) / 3.0, (lb + ub) / 2.0, ub})  # noqa


def bounds(tier):
    return {"partA_ub": [0, 1, 2, 3, 4, 5, 6, 7, 8, 9, 2.5, 0.5], "partA_lb_binary": [0, 1], "ranges_within": [0, 6],
            "partB_depth": 5 if tier == "quick" else 6, "partB_max_vars": 2,
            "partB_wrapper_configurations": [c[0] for c in WRAPPER_CFGS]}


# ----------------------------------------------------------------------------------------------
# Part B: the dictionary model
# ----------------------------------------------------------------------------------------------
OBJ_PATTERNS = {
    "A": lambda n: [1.0] * n,
    "B": lambda n: [1.0] + [0.0] * (n - 1),
    "C": lambda n: ([2.0] + [0.0] * (n - 2) + [-1.0]) if n >= 2 else [-1.0],
    "D": lambda n: [1.0] * n,   # same coefficients as A plus a constant term (objective offset)
}
OBJ_CONST = {"A": 0.0, "B": 0.0, "C": 0.0, "D": 7.5}


class Model:
    def __init__(self):
        self.vars = []  # [lb, ub, type]
        self.obj = None  # (coeffs list aligned with vars at the time, sense)
        self.queue = []  # pending requests in call order: ("fix" | "lb", var, val)

    def clone(self):
        m = Model()
        m.vars = [list(v) for v in self.vars]
        m.obj = None if self.obj is None else (list(self.obj[0]), self.obj[1], self.obj[2])
        m.queue = list(self.queue)
        return m

    def key(self):
        return json.dumps([self.vars, self.obj, self.queue])

    def enabled(self, max_vars):
        ops = []
        if len(self.vars) < max_vars:
            ops += [["addI"], ["addC"]]
        n = len(self.vars)
        if n:
            for p in OBJ_PATTERNS:
                for s in ("min", "max"):
                    ops.append(["obj", p, s])
            for v in range(n):
                # a variable may be named by up to two pending requests (the same request twice, a fix after a lower bound, ...):
                # requests take effect in call order at the next optimize()
                if sum(1 for q in self.queue if q[1] == v) < 2:
                    for val in (0, 1, 2):
                        ops.append(["fix", v, val])
                    for val in (1, 2):
                        ops.append(["lb", v, val])
            ops.append(["opt"])
        return ops

    def apply(self, op):
        k = op[0]
        if k == "addI":
            self.vars.append([0.0, 3.0, "I"])
        elif k == "addC":
            self.vars.append([0.0, 2.0, "C"])
        elif k == "obj":
            self.obj = (OBJ_PATTERNS[op[1]](len(self.vars)), op[2], OBJ_CONST[op[1]])
        elif k == "fix":
            self.queue.append(("fix", op[1], float(op[2])))
        elif k == "lb":
            self.queue.append(("lb", op[1], float(op[2])))
        elif k == "opt":
            for kind, v, val in self.queue:
                self.vars[v][0] = val
                if kind == "fix":
                    self.vars[v][1] = val
            self.queue = []
        return self

    def predict(self):
        """(status, optimum or None) of the bound-only model"""
        if any(lb > ub for lb, ub, _ in self.vars):
            return "kInfeasible", None
        coeffs, sense, const = self.obj if self.obj is not None else ([], "min", 0.0)
        coeffs = list(coeffs) + [0.0] * (len(self.vars) - len(coeffs))
        tot = const
        for (lb, ub, _), c in zip(self.vars, coeffs):
            if sense == "min":
                tot += c * (lb if c >= 0 else ub)
            else:
                tot += c * (ub if c >= 0 else lb)
        return "kOptimal", tot


def explore(depth, max_vars):
    """BFS over the model; returns (n_states, transitions as histories)"""
    init = Model()
    seen = {init.key(): []}
    frontier = collections.deque([(init, [])])
    transitions = []
    while frontier:
        m, hist = frontier.popleft()
        if len(hist) >= depth:
            continue
        for op in m.enabled(max_vars):
            transitions.append(hist + [op])
            nxt = m.clone().apply(op)
            k = nxt.key()
            if k not in seen:
                seen[k] = hist + [op]
                frontier.append((nxt, hist + [op]))
    return len(seen), transitions


def cases(tier, seed):
    depth = 5 if tier == "quick" else 6
    n_states, trans = explore(depth, 2)
    # batch transitions so that a case is not too tiny
    B = 40
    for i in range(0, len(trans), B):
        yield {"part": "hist", "histories": trans[i:i + B], "n_states_total": n_states if i == 0 else 0}
    for ub in (0, 1, 2, 3, 4, 5, 6, 7, 8, 9, 2.5, 0.5):
        yield {"part": "intprod", "ub": ub}
        for lb in (0, 1):
            if lb <= ub:
                yield {"part": "binprod", "lb": lb, "ub": ub}
    # piecewise: every list of 1-3 disjoint integer ranges inside [0,6], passed in every order, distinct constants (close together: 1, 2, 0.5; and far apart: 5, 1, 20)
    rngs = [(a, b) for a in range(0, 7) for b in range(a, 7)]
    consts_pool = [1, 2, 0.5]
    lists = []
    for r in range(1, 4):
        for combo in itertools.combinations(rngs, r):
            if all(combo[i][1] < combo[i + 1][0] for i in range(len(combo) - 1)):
                lists.append(combo)
    for i in range(0, len(lists), 25):
        yield {"part": "piecewise", "lists": [[list(x) for x in c] for c in lists[i:i + 25]], "consts": consts_pool}


# ----------------------------------------------------------------------------------------------
# replay on the real wrapper
# ----------------------------------------------------------------------------------------------

# wrapper configurations every history is replayed under: the optimize() route differs (plain call / call under the wrapper's own
# SIGALRM timeout), the relation between what was posted and what is read back must not
WRAPPER_CFGS = [("default", {}),
                ("time_limit", {"time_limit": 600}),
                ("custom_timeout", {"time_limit": 600, "use_also_custom_timeout": True})]


def _replay_history(sw, hist, viol, tags, cfg=("default", {})):
    import numpy as np
    s = sw.SolverWrapper(threads=1, **cfg[1])
    m = Model()
    hv = []  # real variables
    hist = list(hist)
    if hist[-1][0] != "opt":
        hist = hist + [["opt"]]
    nt = False
    for step, op in enumerate(hist):
        k = op[0]
        if k == "addI":
            d = s.add_variables([len(hv)], name_prefix=f"v{len(hv)}_", lb=0, ub=3, var_type="integer")
            hv.append(d[len(hv)])
        elif k == "addC":
            d = s.add_variables([len(hv)], name_prefix=f"v{len(hv)}_", lb=0, ub=2, var_type="continuous")
            hv.append(d[len(hv)])
        elif k == "obj":
            co = OBJ_PATTERNS[op[1]](len(hv))
            if m.obj is not None:
                nt = True
            expr = s.quicksum(c * v for c, v in zip(co, hv))
            if OBJ_CONST[op[1]]:
                expr = expr + OBJ_CONST[op[1]]
            s.set_objective(expr, sense=op[2])
        elif k == "fix":
            s.queue_fix_variable(hv[op[1]], op[2])
            nt = True
        elif k == "lb":
            s.queue_set_var_lower_bound(hv[op[1]], op[2])
            nt = True
        elif k == "opt":
            if not hv:
                m.apply(op)
                continue
            s.optimize()
        m.apply(op)
        if k == "opt" and hv:
            tags["optimize_calls"] += 1
            st_exp, opt_exp = m.predict()
            st = s.get_model_status()
            n = len(hv)
            _, _, costs, lows, ups, _ = s.solver.getCols(n, np.arange(n, dtype=np.int32))
            got_bounds = [[float(lows[i]), float(ups[i])] for i in range(n)]
            exp_bounds = [[v[0], v[1]] for v in m.vars]
            if got_bounds != exp_bounds:
                viol.append({"kind": "wrong_bounds", "msg": f"after {hist[:step + 1]}: column bounds {got_bounds}, requested {exp_bounds}"})
                return nt
            if st != st_exp:
                viol.append({"kind": "wrong_status", "msg": f"after {hist[:step + 1]}: status {st}, model predicts {st_exp}"})
                return nt
            if st == "kOptimal":
                val = s.get_objective_value()
                if abs(val - opt_exp) > 1e-6:
                    viol.append({"kind": "wrong_optimum", "msg": f"after {hist[:step + 1]}: optimum {val}, model predicts {opt_exp} (objective not fully replaced / wrong bounds?)"})
                    return nt
                # values read back for exactly the variables asked for
                for sub in ([0], list(range(n)), [n - 1]):
                    asked = {f"k{j}": hv[j] for j in sub}
                    got = s.get_values(asked)
                    if set(got) != set(asked):
                        viol.append({"kind": "wrong_value_keys", "msg": f"get_values returned keys {sorted(got)} for {sorted(asked)}"})
                        return nt
                    for j in sub:
                        x = got[f"k{j}"]
                        lb, ub, ty = m.vars[j]
                        if x < lb - 1e-6 or x > ub + 1e-6 or (ty == "I" and abs(x - round(x)) > 1e-6):
                            viol.append({"kind": "value_outside_bounds", "msg": f"after {hist[:step + 1]}: var {j} value {x} outside [{lb},{ub}]"})
                            return nt
                allv = s.get_values({j: hv[j] for j in range(n)})
                co = list(m.obj[0]) + [0.0] * (n - len(m.obj[0])) if m.obj else [0.0] * n
                rec = sum(c * allv[j] for j, c in enumerate(co)) + (m.obj[2] if m.obj else 0.0)
                if abs(rec - val) > 1e-6:
                    viol.append({"kind": "values_inconsistent", "msg": f"after {hist[:step + 1]}: objective recomputed from get_values {rec} != {val}"})
                    return nt
    return nt


def _minmax(sw, build):
    """build(s) -> target var; returns (status_min, min, status_max, max)"""
    out = []
    for sense in ("min", "max"):
        s = sw.SolverWrapper(threads=1)
        target = build(s)
        s.set_objective(s.quicksum([target]), sense=sense)
        s.optimize()
        st = s.get_model_status()
        out.append((st, s.get_objective_value() if st == "kOptimal" else None))
    return out


def run(case):
    import flowpaths.utils.solverwrapper as sw
    part = case["part"]
    viol = []
    tags = collections.Counter()
    nt = 0
    states = transitions = traces = 0
    if part == "hist":
        states = case.get("n_states_total", 0)
        from mc import runner
        for h in case["histories"]:
            for cfg in WRAPPER_CFGS:
                if cfg[0] != "default" and sum(1 for op in h if op[0] == "opt") + (h[-1][0] != "opt") < 2:
                    continue  # the optimize() route can only matter to what a LATER optimize() / read-back sees
                nv = len(viol)
                if _replay_history(sw, h, viol, tags, cfg):
                    nt += 1
                for v in viol[nv:]:
                    v["msg"] = f"[wrapper options {cfg[1]}] " + v["msg"]
                tags["replays_" + cfg[0]] += 1
                traces += 1
                if cfg[0] == "custom_timeout":
                    runner.rearm()
            transitions += 1
            if len(viol) > 3:
                break
    elif part == "binprod":
        lb, ub = case["lb"], case["ub"]
        for b in (0, 1):
            for c in GRID(lb, ub):
                def build(s, b=b, c=c):
                    bv = s.add_variables([0], name_prefix="b", lb=0, ub=1, var_type="integer")[0]
                    cv = s.add_variables([0], name_prefix="c", lb=lb, ub=ub, var_type="continuous")[0]
                    pv = s.add_variables([0], name_prefix="p", lb=-50, ub=100, var_type="continuous")[0]
                    s.add_binary_continuous_product_constraint(bv, cv, pv, lb=lb, ub=ub, name="t")
                    s.add_constraint(bv == b, name="fb")
                    s.add_constraint(cv == c, name="fc")
                    return pv
                (s1, lo), (s2, hi) = _minmax(sw, build)
                tags["binprod_points"] += 1
                exp = b * c
                if s1 != "kOptimal" or s2 != "kOptimal":
                    viol.append({"kind": "product_infeasible", "msg": f"binary*continuous lb={lb} ub={ub}: b={b}, c={c} infeasible ({s1},{s2})"})
                elif abs(lo - exp) > 1e-6 or abs(hi - exp) > 1e-6:
                    viol.append({"kind": "product_not_exact", "msg": f"binary*continuous lb={lb} ub={ub}: b={b}, c={c}: product ranges over [{lo},{hi}], expected {exp}"})
                if b and c:
                    nt += 1
    elif part == "intprod":
        ub = case["ub"]
        for i in range(0, int(math.floor(ub)) + 1):
            for c in GRID(0, ub):
                def build(s, i=i, c=c):
                    iv = s.add_variables([0], name_prefix="i", lb=0, ub=ub, var_type="integer")[0]
                    cv = s.add_variables([0], name_prefix="c", lb=0, ub=ub, var_type="continuous")[0]
                    pv = s.add_variables([0], name_prefix="p", lb=-50, ub=1000, var_type="continuous")[0]
                    s.add_integer_continuous_product_constraint(iv, cv, pv, lb=0, ub=ub, name="t")
                    s.add_constraint(iv == i, name="fi")
                    s.add_constraint(cv == c, name="fc")
                    return pv
                (s1, lo), (s2, hi) = _minmax(sw, build)
                tags["intprod_points"] += 1
                exp = i * c
                if s1 != "kOptimal" or s2 != "kOptimal":
                    viol.append({"kind": "product_infeasible", "msg": f"integer*continuous ub={ub}: i={i}, c={c} infeasible ({s1},{s2})"})
                elif abs(lo - exp) > 1e-6 or abs(hi - exp) > 1e-6:
                    viol.append({"kind": "product_not_exact", "msg": f"integer*continuous ub={ub}: i={i}, c={c}: product ranges over [{lo},{hi}], expected {exp}"})
                if i and c:
                    nt += 1
    elif part == "piecewise":
        pool = case["consts"]
        for rl0, cs in [(r_, pool[:len(r_)]) for r_ in case["lists"]] + [(r_, [5, 1, 20][:len(r_)]) for r_ in case["lists"] if len(r_) > 1]:
            # the ranges are passed in EVERY order (the helper only asks for disjoint ranges), which also assigns the constants in every way
            for perm in itertools.permutations(range(len(rl0))):
                rl = [rl0[i] for i in perm]
                xs = [x for (a, b) in rl for x in range(a, b + 1)]
                for x in xs:
                    exp = [c for (a, b), c in zip(rl, cs) if a <= x <= b][0]

                    def build(s, x=x, rl=rl, cs=cs):
                        xv = s.add_variables([0], name_prefix="x", lb=0, ub=10, var_type="integer")[0]
                        yv = s.add_variables([0], name_prefix="y", lb=-50, ub=50, var_type="continuous")[0]
                        s.add_piecewise_constant_constraint(xv, yv, ranges=[tuple(r) for r in rl], constants=list(cs), name_prefix="pw")
                        s.add_constraint(xv == x, name="fx")
                        return yv
                    (s1, lo), (s2, hi) = _minmax(sw, build)
                    tags["piecewise_points"] += 1
                    if s1 != "kOptimal" or s2 != "kOptimal":
                        viol.append({"kind": "piecewise_infeasible", "msg": f"ranges={rl} constants={cs}: x={x} infeasible"})
                    elif abs(lo - exp) > 1e-6 or abs(hi - exp) > 1e-6:
                        viol.append({"kind": "piecewise_not_exact", "msg": f"ranges={rl} constants={cs}: x={x}: y ranges over [{lo},{hi}], expected {exp}"})
                    if len(rl) > 1:
                        nt += 1
                if len(viol) > 3:
                    break
            if len(viol) > 3:
                break
    return {"v": viol[:4], "nt_n": nt, "tags": dict(tags), "out": f"{part}:{'viol' if viol else 'ok'}",
            "states": states, "transitions": transitions, "traces": traces}
