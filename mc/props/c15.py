"""C15 - MinGenSet and MinSetCover return true optima whenever one exists."""
import collections
import itertools
from fractions import Fraction

from .. import common
from ..fit import _solve_square

SPEC = {
    "id": "C15",
    "level": "exploration",
    "design_ref": "DESIGN.md section 5, C15",
    "rule": ("MinGenSet: cases = every non-empty subset of {1..N} of size <= S x every total in 1..sum (totals below the largest number only with max_multiplicity > 1); inside: weight_type x max_multiplicity in {1,2,3,4} x "
             "lowerbound in {-1, 0, 1, min(2, optimum)} x remove_complement_values x remove_sums_of_two x partition constraints (splits of the total into 2 and 3 parts "
             "drawn from sums of the numbers, three equal parts, and a 3-part plus a 2-part constraint in both orders); oracle: enumerate multisets (partitions of the total into k positive parts) and test every number as a bounded-"
             "multiplicity sub-multiset sum. MinSetCover: every universe of <= U elements x every family of <= M non-empty subsets x weights in {1,2,3}^m "
             "(+ unit / None weights); oracle 2^m brute force. non-trivial = distinct instance with optimum >= 2 that was solved and compared"),
    "assumptions": ["lowerbound is only passed when it really is a lower bound (the parameter is the caller's promise)",
                    "float generating sets: optimum size equals the integer optimum on these integer instances unless the exact rational search finds a smaller one (it is run for k < integer optimum)"],
}


def bounds(tier):
    if tier == "quick":
        return {"numbers": "subsets of {1..6} of size<=3", "max_multiplicity": [1, 2, 3, 4], "setcover": "universe<=3, families<=3 subsets, weights {1,2,3}"}
    return {"numbers": "subsets of {1..8} of size<=4", "max_multiplicity": [1, 2, 3, 4], "setcover": "universe<=4, families<=4 subsets, weights {1,2,3}"}


def cases(tier, seed):
    q = tier == "quick"
    N, S = (6, 3) if q else (8, 4)
    for size in range(1, S + 1):
        for nums in itertools.combinations(range(1, N + 1), size):
            # totals below max(nums) are in the domain when max_multiplicity > 1 (MinFlowDecompCycles passes cycle flow values
            # larger than the source flow); the oracle simply finds no generating set when none exists
            tots = list(range(1, sum(nums) + 1))
            for i in range(0, len(tots), 4):
                yield {"part": "mgs", "numbers": list(nums), "totals": tots[i:i + 4]}
    # two 3-part partition constraints at once, parts NOT tied to the numbers: one number, total T, every unordered pair of 3-part
    # partitions of T (the optimum grows with the number of constraints: the size search must not stop early)
    for T in ((10, 12) if tier == "quick" else (9, 10, 11, 12, 13)):
        yield {"part": "mgs", "numbers": [T // 2 + 1], "totals": [T], "two3": True}
    U, M = (3, 3) if q else (4, 4)
    for u in range(1, U + 1):
        univ = list(range(u))
        subs = [list(c) for r in range(1, u + 1) for c in itertools.combinations(univ, r)]
        for m in range(1, M + 1):
            fams = list(itertools.combinations(subs, m))
            for i in range(0, len(fams), 10):
                yield {"part": "msc", "universe": univ, "families": [list(f) for f in fams[i:i + 10]]}


def partitions(total, k, minv=1):
    if k == 1:
        if total >= minv:
            yield (total,)
        return
    for a in range(minv, total // k + 1):
        for r in partitions(total - a, k - 1, a):
            yield (a,) + r


def gens(g, num, m):
    reach = {0}
    for x in g:
        reach = {r + c * x for r in reach for c in range(m + 1) if r + c * x <= num}
    return num in reach


def parts_ok(g, constraint):
    """partition constraint: the generating set splits into len(constraint) groups (each element in exactly one group) with the given sums"""
    k = len(g)
    t = len(constraint)
    for assign in itertools.product(range(t), repeat=k):
        sums = [0] * t
        for gi, a in zip(g, assign):
            sums[a] += gi
        if sums == list(constraint):
            return True
    return False


def oracle_int(numbers, total, m, pcs=None, kmax=7):
    for k in range(1, kmax + 1):
        for g in partitions(total, k):
            if all(gens(g, x, m) for x in numbers) and all(parts_ok(g, c) for c in (pcs or [])):
                return k, list(g)
    return None, None


def float_exists(numbers, total, m, k):
    """is there a real generating multiset of size k? exact: enumerate usage matrices, solve for g"""
    n = len(numbers)
    for x in itertools.product(range(m + 1), repeat=k * n):
        rows = [[x[i * n + j] for i in range(k)] for j in range(n)] + [[1] * k]
        rhs = list(numbers) + [total]
        # pick k independent rows, solve, verify all rows
        for combo in itertools.combinations(range(n + 1), k):
            sol = _solve_square([rows[c] for c in combo], [rhs[c] for c in combo])
            if sol is None or any(v < 0 for v in sol):
                continue
            if all(sum(a * b for a, b in zip(rows[r], sol)) == rhs[r] for r in range(n + 1)):
                return [str(v) for v in sol]
    return None


def run(case):
    import flowpaths as fp
    viol = []
    nt = []
    tags = collections.Counter()
    if case["part"] == "mgs":
        nums = case["numbers"]
        for total in case["totals"]:
            for m in (1, 2, 3, 4):
                if total < max(nums) and m == 1:
                    continue
                k, g = oracle_int(nums, total, m)
                if k is None:
                    continue
                subsums = sorted({sum(c) for r in range(1, len(nums) + 1) for c in itertools.combinations(nums, r) if sum(c) < total})
                pcs_list = [None]
                if m == 1:
                    for a in subsums[:3]:
                        pcs_list.append([[a, total - a]])
                    # three parts, equal parts, and two constraints at once (the order of the constraints matters to an encoder)
                    three = [[a, b, total - a - b] for a in subsums[:2] for b in subsums[:3] if a <= b and a + b < total][:3]
                    pcs_list += [[c] for c in three]
                    if total % 3 == 0 and [total // 3] * 3 not in three:
                        pcs_list.append([[total // 3] * 3])
                    if three and subsums:
                        pcs_list.append([three[0], [subsums[-1], total - subsums[-1]]])
                        pcs_list.append([[subsums[-1], total - subsums[-1]], three[0]])
                if case.get("two3"):
                    if m > 1:
                        continue
                    p3 = [list(x) for x in partitions(total, 3)]
                    pcs_list = [None] + [[a, b] for a, b in itertools.combinations(p3, 2)] + [[b, a] for a, b in itertools.combinations(p3, 2)][::5]
                    tags["two_three_part_constraints"] += len(pcs_list) - 1
                configs = []
                for wt in ("int", "float"):
                    for lb in sorted({1, min(2, k)}):
                        for rc in (True, False):
                            for rs in (False, True):
                                if rs and m > 1:
                                    continue
                                configs.append((wt, lb, rc, rs, None))
                    for pc in pcs_list[1:]:
                        configs.append((wt, 1, True, False, pc))
                    # 0 and -1 are (trivially true) lower bounds as well
                    configs.append((wt, 0, True, False, None))
                    configs.append((wt, -1, True, False, None))
                for wt, lb, rc, rs, pc in configs:
                    kk, gg = (k, g) if pc is None else oracle_int(nums, total, m, pc)
                    if kk is None:
                        continue
                    ctx = f"MinGenSet({nums}, total={total}, {wt}, max_multiplicity={m}, lowerbound={lb}, remove_complement={rc}, remove_sums_of_two={rs}, partition={pc})"
                    tags["mgs"] += 1
                    try:
                        from .. import faults
                        with faults.ValueNoise(-5e-10 if (wt == "int" and lb == 1 and rc and not rs and pc is None) else 0.0):
                            mg = fp.MinGenSet(list(nums), total=total, weight_type=int if wt == "int" else float, max_multiplicity=m, lowerbound=lb,
                                              partition_constraints=pc, remove_complement_values=rc, remove_sums_of_two=rs, solver_options={"threads": 1})
                            r = mg.solve()
                            sol = mg.get_solution() if mg.is_solved() else None
                    except SystemExit as e:
                        viol.append({"kind": "mgs_exception", "msg": f"{ctx} SystemExit"})
                        continue
                    except Exception as e:
                        viol.append({"kind": "mgs_exception", "msg": f"{ctx} raised {common.exc_str(e)}"})
                        continue
                    if sol is None:
                        viol.append({"kind": "mgs_unsolved", "opt_eq_len": kk >= len(nums), "msg": f"{ctx}: not solved although {gg} generates every number"})
                        continue
                    if wt == "int" and not all(isinstance(x, int) and not isinstance(x, bool) for x in sol):
                        viol.append({"kind": "mgs_wrong_type", "msg": f"{ctx}: solution {sol} is not a list of ints"})
                        continue
                    if any(x < -1e-9 for x in sol) or abs(sum(sol) - total) > 1e-6:
                        viol.append({"kind": "mgs_invalid", "msg": f"{ctx}: solution {sol} is negative somewhere or does not sum to {total}"})
                        continue
                    if wt == "int":
                        bad = [x for x in nums if not gens([y for y in sol if y > 0], x, m)]
                    else:
                        # float: check generation with tolerance by snapping to rationals
                        fs = [Fraction(y).limit_denominator(10 ** 6) for y in sol]
                        bad = []
                        for x in nums:
                            ok = False
                            for cs in itertools.product(range(m + 1), repeat=len(fs)):
                                if abs(sum(c * y for c, y in zip(cs, fs)) - x) < Fraction(1, 10 ** 4):
                                    ok = True
                                    break
                            if not ok:
                                bad.append(x)
                    if bad:
                        viol.append({"kind": "mgs_not_generating", "m": m, "msg": f"{ctx}: solution {sol} does not generate {bad} (each element used at most {m} times)"})
                        continue
                    if pc is not None and wt == "int" and not all(parts_ok(sol, c) for c in pc):
                        viol.append({"kind": "mgs_partition_violated", "msg": f"{ctx}: solution {sol} cannot be split into groups with sums {pc}"})
                        continue
                    if len(sol) > kk:
                        viol.append({"kind": "mgs_not_minimum", "msg": f"{ctx}: solution {sol} has {len(sol)} elements, {gg} has {kk}"})
                        continue
                    if len(sol) < kk:
                        if wt == "float":
                            tags["float_smaller_than_int"] += 1
                        else:
                            viol.append({"kind": "oracle_beaten", "msg": f"{ctx}: solution {sol} smaller than brute-force minimum {kk}"})
                        continue
                    if kk >= 2:
                        nt.append(ctx)
                if len(viol) > 6:
                    return _ret(viol, nt, tags)
    else:
        univ = case["universe"]
        for fam in case["families"]:
            m = len(fam)
            covered = set().union(*[set(s) for s in fam])
            feasible = covered >= set(univ)
            wlist = [list(w) for w in itertools.product((1, 2, 3), repeat=m)] if m <= 3 else [[1] * m, [1, 2, 3, 1][:m], [3, 1, 2, 2][:m]]
            for w in wlist + [None]:
                ctx = f"MinSetCover(universe={univ}, subsets={fam}, weights={w})"
                ww = w if w is not None else [1] * m
                best = None
                for mask in range(1 << m):
                    if set().union(*[set(fam[i]) for i in range(m) if mask >> i & 1]) >= set(univ):
                        c = sum(ww[i] for i in range(m) if mask >> i & 1)
                        if best is None or c < best:
                            best = c
                tags["msc"] += 1
                try:
                    # the unit-weight runs are done under solver values shifted by +5e-10 / -5e-10 (1.0000000005 is still 'chosen')
                    from .. import faults
                    delta = 0.0 if w is not None and w != [1] * m else (5e-10 if len(fam[0]) % 2 else -5e-10)
                    with faults.ValueNoise(delta):
                        sc = fp.MinSetCover(list(univ), [list(s) for s in fam], subset_weights=w, solver_options={"threads": 1})
                        r = sc.solve()
                        sol = sc.get_solution() if r else None
                        sol_sets = sc.get_solution(as_subsets=True) if r else None
                    if delta:
                        tags["msc_noisy"] += 1
                except Exception as e:
                    viol.append({"kind": "msc_exception", "none_weights": w is None, "msg": f"{ctx} raised {common.exc_str(e)}"})
                    continue
                if best is None:
                    if sol is not None:
                        viol.append({"kind": "msc_solved_infeasible", "msg": f"{ctx}: solved with {sol} although no cover exists"})
                    continue
                if sol is None:
                    viol.append({"kind": "msc_unsolved", "msg": f"{ctx}: not solved although a cover of weight {best} exists"})
                    continue
                if not all(isinstance(i, int) and 0 <= i < m for i in sol) or len(set(sol)) != len(sol):
                    viol.append({"kind": "msc_invalid", "msg": f"{ctx}: solution {sol} is not a list of distinct subset indices"})
                    continue
                if not set().union(*[set(fam[i]) for i in sol]) >= set(univ):
                    viol.append({"kind": "msc_not_cover", "msg": f"{ctx}: solution {sol} does not cover the universe"})
                    continue
                if sol_sets != [fam[i] for i in sol]:
                    viol.append({"kind": "msc_as_subsets_mismatch", "msg": f"{ctx}: get_solution(as_subsets=True)={sol_sets} but indices {sol}"})
                cost = sum(ww[i] for i in sol)
                if cost != best:
                    viol.append({"kind": "msc_not_minimum", "msg": f"{ctx}: cover {sol} has weight {cost}, the minimum is {best}"})
                    continue
                if len(sol) >= 2:
                    nt.append(ctx)
            if len(viol) > 6:
                return _ret(viol, nt, tags)
    return _ret(viol, nt, tags)


def _ret(viol, nt, tags):
    seen = collections.Counter()
    out = []
    for v in viol:
        seen[v["kind"]] += 1
        if seen[v["kind"]] <= 2:
            out.append(v)
    return {"v": out, "nt": nt, "tags": dict(tags), "out": "viol:" + ",".join(sorted(seen)) if viol else "ok"}
