"""C09 - minimum path/walk covers cover everything with the fewest routes; width equals that minimum.

Oracle: explicit-state search over (node, bitmask of covered target arcs) yields every arc set coverable
by ONE source-sink walk (exact for walks of any length); the minimum cover is the smallest family of maximal
coverable sets whose union is the target."""
import collections
import itertools

from .. import world, drivers, preds
from .. import oracles as O

SPEC = {
    "id": "C09",
    "level": "exploration",
    "design_ref": "DESIGN.md section 5, C09",
    "rule": ("cases = (shape of W-DAG for MinPathCover/kPathCover/stDAG.get_width, of W-DIG/W-NAMED for the cyclic classes) x cover type "
             "x additional start/end variant; inside a case: get_width for EVERY ignored subset leaving >=1 arc (|E|<=6, else subsets of size<=2), "
             "Min*/k* models for ignored subsets of size <=1 (thorough <=2) with k in {opt-1, opt, opt+1}; oracle = min number of "
             "maximal single-walk coverable sets (explicit-state search); non-trivial = distinct (shape, variant, ignored set) whose optimum is >= 1 and the model was solved"),
    "assumptions": ["all worlds satisfy the documented domain: every arc on a source-sink walk, >=1 source and sink",
                    "solution-independent judgement: only counts, coverage and route validity are compared"],
}


def bounds(tier):
    q = tier == "quick"
    return {"dag": "W-DAG(n<=4)" if q else "W-DAG(n<=5)", "cyclic": "W-DIG(n<=4, arcs<=6)+W-NAMED" if q else "W-DIG(n<=4, arcs<=8)+W-NAMED",
            "ignored_sets_width": "all subsets (|E|<=6) else size<=2", "ignored_sets_models": "size<=1" if q else "size<=2",
            "additional_start_end": "none + first inner node as start / as end" if q else "none + every single inner node as start / as end",
            "bottleneck_graphs": "B(p,q), (p,q) in {(2,2),(2,3),(3,3),(3,4)}" + ("" if q else " + (4,4),(4,5)") + ", natural source/sink and start=end=g; oracle = explicit witness walk (optimum 1)"}


def cases(tier, seed):
    q = tier == "quick"
    dags = world.dag_shapes(4 if q else 5)
    cyc = world.dig_shapes(4, 6 if q else 8) + world.named_shapes() + ([] if q else [x for x in world.dig_shapes(5, 6, selfloops=False) if x[0] == 5 and not world.is_acyclic(*x)])
    # bottleneck graphs (witness oracle): one walk has to pass one arc p*q times
    for (p_, q_) in ((2, 2), (2, 3), (3, 3), (3, 4)) + (() if q else ((4, 4), (4, 5))):
        for natural in (True, False):
            yield bottleneck_case(p_, q_, natural)
    seen = set()
    for fam, shapes in (("dag", dags), ("cyc", cyc)):
        for idx, shp in enumerate(shapes):
            if (fam, shp) in seen:
                continue
            seen.add((fam, shp))
            if fam == "dag" and not q and shp[0] == 5 and len(shp[1]) > 7:
                continue
            names, arcs = world.present(shp, seed, idx)
            base = {"fam": fam, "nodes": names, "arcs": [[u, v, 1] for u, v in arcs], "ign_models": 1 if q else 2}
            inner = [v for v in names if any(a[1] == v for a in arcs) and any(a[0] == v for a in arcs)]
            variants = [([], [])]
            for v in (inner[:1] if q else inner):
                variants.append(([v], []))
                variants.append(([], [v]))
            for ct in ("edge", "node"):
                for st, en in variants:
                    yield dict(base, cover_type=ct, starts=st, ends=en)


def bottleneck_case(p, q, natural):
    """B(p,q): every round trip through the strongly connected component passes the single arc g->h:
    g -> h -> a_i -> b_j -> g with the complete bipartite set a_i -> b_j. ONE walk covers everything, but it has to pass g->h
    p*q times - more often than the graph has nodes once p*q > p+q+4. Returns the case and a witness walk."""
    A = [f"a{i}" for i in range(p)]
    B = [f"b{j}" for j in range(q)]
    arcs = [("g", "h")] + [("h", a) for a in A] + [(a, b) for a in A for b in B] + [(b, "g") for b in B]
    nodes = ["g", "h"] + A + B
    walk = []
    if natural:
        arcs = [("s", "g")] + arcs + [("g", "t")]
        nodes = ["s"] + nodes + ["t"]
        walk.append("s")
    for a in A:
        for b in B:
            walk += ["g", "h", a, b]
    walk.append("g")
    if natural:
        walk.append("t")
    case = {"fam": "cyc", "nodes": nodes, "arcs": [[u, v, 1] for u, v in arcs], "cover_type": "edge",
            "starts": [] if natural else ["g"], "ends": [] if natural else ["g"], "bottleneck": [p, q, natural], "witness": walk}
    return case


def _run_bottleneck(case):
    import flowpaths as fp
    viol, nt, tags = [], [], collections.Counter()
    E = [(a[0], a[1]) for a in case["arcs"]]
    w = case["witness"]
    used = set(zip(w[:-1], w[1:]))
    assert used == set(E) and all(e in set(E) for e in used), "witness walk does not cover the bottleneck graph"  # oracle self-check: optimum == 1
    G = drivers.build_graph(case)
    kw = {"cover_type": "edge", "additional_starts": case["starts"], "additional_ends": case["ends"]}
    ctx0 = f"B{tuple(case['bottleneck'])} ({len(case['nodes'])} nodes, {len(E)} arcs; one walk covers it passing g->h {case['bottleneck'][0] * case['bottleneck'][1]} times)"
    try:
        st = fp.stDiGraph(G, additional_starts=case["starts"], additional_ends=case["ends"])
        wd = st.get_width(list(st.source_sink_edges))
        if wd != 1:
            viol.append({"kind": "width_mismatch", "msg": f"{ctx0}: get_width = {wd}, the witness walk shows 1"})
    except Exception as ex:  # noqa
        viol.append({"kind": "width_exception", "msg": f"{ctx0}: get_width raised {drivers.common.exc_str(ex)}"})
    for cls_, kk in (("kPathCoverCycles", {"k": 1}), ("MinPathCoverCycles", {})):
        o = drivers.observe(dict(case, cls=cls_, kw=dict(kw, **kk)), G)
        tags[cls_] += 1
        if o["exc"]:
            viol.append({"kind": "min_cover_exception", "msg": f"{ctx0}: {cls_} raised {o['exc']}"})
        elif not o["solved"]:
            viol.append({"kind": "k_cover_feasibility" if kk else "min_cover_unsolved", "msg": f"{ctx0}: {cls_}({kk}) is not solved although one walk covers every arc"})
        else:
            routes = o["sol"].get("walks")
            errs = preds.route_errors(case, routes, True, case["starts"], case["ends"]) + preds.cover_errors(case, routes, "edge", [])
            if errs:
                viol.append({"kind": "min_cover_invalid", "msg": f"{ctx0}: {cls_}: {errs[0]}", "routes": routes})
            elif len(routes) != 1:
                viol.append({"kind": "min_cover_not_minimum", "msg": f"{ctx0}: {cls_} returned {len(routes)} walks; one walk covers every arc", "routes": routes})
            else:
                nt.append(f"bottleneck|{case['bottleneck']}|{cls_}")
    return {"v": viol, "nt": nt, "tags": dict(tags), "out": "cyc:bottleneck:" + ("viol" if viol else "ok"), "states": 0, "transitions": 0}


def expanded(case):
    """independent node expansion: v -> (v|in, v|out); returns STGraph over the expansion and the node arcs"""
    nodes = []
    arcs = []
    for v in case["nodes"]:
        nodes += [v + "|in", v + "|out"]
        arcs.append((v + "|in", v + "|out"))
    for a in case["arcs"]:
        arcs.append((a[0] + "|out", a[1] + "|in"))
    g = O.STGraph(nodes, arcs, starts=[v + "|in" for v in case["starts"]], ends=[v + "|out" for v in case["ends"]])
    return g


def run(case):
    import flowpaths as fp
    if case.get("bottleneck"):
        return _run_bottleneck(case)
    viol = []
    nt = []
    tags = collections.Counter()
    stats = O.Stats()
    fam = case["fam"]
    ct = case["cover_type"]
    E = [(a[0], a[1]) for a in case["arcs"]]
    V = list(case["nodes"])
    G = drivers.build_graph(case)
    key = world.shape_key((len(V), tuple(E))) + f"|{ct}|{case['starts']}|{case['ends']}"
    if ct == "edge":
        g = O.STGraph(V, E, case["starts"], case["ends"])
        elements = E
        tgt = lambda el: el  # noqa
    else:
        g = expanded(case)
        elements = V
        tgt = lambda el: (el + "|in", el + "|out")  # noqa
    STcls = fp.stDAG if fam == "dag" else fp.stDiGraph
    Min = "MinPathCover" if fam == "dag" else "MinPathCoverCycles"
    Kc = "kPathCover" if fam == "dag" else "kPathCoverCycles"
    ckey = "subpath_constraints" if fam == "dag" else "subset_constraints"
    rkey = "paths" if fam == "dag" else "walks"
    n_el = len(elements)
    if n_el <= 6:
        subsets = [list(c) for r in range(0, n_el) for c in itertools.combinations(elements, r)]
    else:
        subsets = [list(c) for r in range(0, 3) for c in itertools.combinations(elements, r)]
    for ign in subsets:
        targets = [tgt(el) for el in elements if el not in ign]
        opt = O.min_cover(g, targets, stats)
        # ---- width (edge cover type only: the s-t graph classes work on arcs) ----
        if ct == "edge":
            try:
                st = STcls(G, additional_starts=case["starts"], additional_ends=case["ends"])
                w = st.get_width(list(st.source_sink_edges) + [tuple(e) for e in ign])
                # state-reached-from-elsewhere differential: ask again on the same (now cache-warm) object
                w2 = st.get_width(list(st.source_sink_edges) + [tuple(e) for e in ign])
            except Exception as ex:
                viol.append({"kind": "width_exception", "msg": f"get_width(ignored={ign}) raised {drivers.common.exc_str(ex)}"})
                continue
            tags["width_queries"] += 1
            if w != opt or w2 != opt:
                viol.append({"kind": "width_mismatch", "msg": f"get_width with ignored={ign} starts={case['starts']} ends={case['ends']} is {w} (repeat {w2}); minimum cover of the remaining arcs is {opt}"})
        # ---- models ----
        if len(ign) > case["ign_models"] or opt is None or opt < 1:
            continue
        kw = {"cover_type": ct, "elements_to_ignore": [list(e) if isinstance(e, tuple) else e for e in ign],
              "additional_starts": case["starts"], "additional_ends": case["ends"]}
        c2 = dict(case, cls=Min, kw=kw)
        obs = drivers.observe(c2, G)
        tags[Min] += 1
        ctx = f"{Min}(cover_type={ct}, ignore={ign}, starts={case['starts']}, ends={case['ends']})"
        if obs["exc"]:
            viol.append({"kind": "min_cover_exception", "msg": f"{ctx} raised {obs['exc']} in {obs['phase']}"})
        elif not obs["solved"]:
            viol.append({"kind": "min_cover_unsolved", "msg": f"{ctx} is not solved although a cover with {opt} routes exists"})
        else:
            routes = obs["sol"].get(rkey)
            errs = preds.route_errors(case, routes, fam == "cyc", case["starts"], case["ends"])
            errs += preds.cover_errors(case, routes, ct, ign)
            if errs:
                viol.append({"kind": "min_cover_invalid", "msg": f"{ctx}: {errs[0]}", "routes": routes})
            elif len(routes) != opt or obs["obj"] != opt:
                viol.append({"kind": "min_cover_not_minimum", "msg": f"{ctx} returned {len(routes)} routes (objective {obs['obj']}); the minimum is {opt}", "routes": routes})
            else:
                nt.append(f"{key}|{ign}")
        for k in (opt - 1, opt, opt + 1):
            if k < 1:
                continue
            c3 = dict(case, cls=Kc, kw=dict(kw, k=k))
            o3 = drivers.observe(c3, G)
            tags[Kc] += 1
            ctx3 = f"{Kc}(k={k}, cover_type={ct}, ignore={ign}, starts={case['starts']}, ends={case['ends']})"
            if o3["exc"]:
                viol.append({"kind": "k_cover_exception", "msg": f"{ctx3} raised {o3['exc']} in {o3['phase']}"})
            elif o3["solved"] != (k >= opt):
                viol.append({"kind": "k_cover_feasibility", "msg": f"{ctx3}: solved={o3['solved']} but the minimum cover is {opt}"})
            elif o3["solved"]:
                routes = o3["sol"].get(rkey)
                errs = preds.route_errors(case, routes, fam == "cyc", case["starts"], case["ends"])
                errs += preds.cover_errors(case, routes, ct, ign)
                no_add = not case["starts"] and not case["ends"]
                errs += preds.shape_errors(o3["sol"], rkey, k=k, exact_k=no_add, need_weights=False)
                if errs:
                    viol.append({"kind": "k_cover_invalid", "msg": f"{ctx3}: {errs[0]}", "routes": routes})
        if len(viol) > 6:
            break
    # ---- covers under a constraint that only has to be covered partially: everything must STILL be covered ----
    if ct == "edge" and not case["starts"] and not case["ends"]:
        from .. import sweep
        con = sweep.a_constraint(case)
        opt0 = O.min_cover(g, list(E), stats)
        if con and opt0:
            variants = []
            if fam == "dag":
                lengths = {f"{a[0]}|{a[1]}": 1 + 2 * (i % 2) for i, a in enumerate(case["arcs"])}
                variants.append(("coverage_length=0.5", dict(case, lengths=lengths), {"subpath_constraints": [con], "subpath_constraints_coverage_length": 0.5, "length_attr": "length"}))
                variants.append(("coverage=0.5", case, {"subpath_constraints": [con], "subpath_constraints_coverage": 0.5}))
                variants.append(("coverage=1", case, {"subpath_constraints": [con]}))
            else:
                variants.append(("coverage=0.5", case, {"subset_constraints": [con], "subset_constraints_coverage": 0.5}))
                variants.append(("coverage=1", case, {"subset_constraints": [con]}))
            for vname, c_in, ckw in variants:
                for cls_, kw_ in ((Min, {}), (Kc, {"k": opt0 + 1})):
                    o4 = drivers.observe(dict(c_in, cls=cls_, kw=dict(ckw, cover_type="edge", **kw_)))
                    tags["constrained_cover"] += 1
                    ctx4 = f"{cls_}({vname}, constraint={con}{', k=%d' % (opt0 + 1) if kw_ else ''})"
                    if o4["exc"]:
                        viol.append({"kind": "constrained_cover_exception", "msg": f"{ctx4} raised {o4['exc']} in {o4['phase']}"})
                    elif o4["solved"]:
                        routes = o4["sol"].get(rkey)
                        errs = preds.route_errors(case, routes, fam == "cyc") + preds.cover_errors(case, routes, "edge", [])
                        if errs:
                            viol.append({"kind": "constrained_cover_invalid", "msg": f"{ctx4}: {errs[0]}", "routes": routes})
                        elif len(routes) < opt0:
                            viol.append({"kind": "constrained_cover_below_minimum", "msg": f"{ctx4}: {len(routes)} routes, fewer than the unconstrained minimum {opt0}", "routes": routes})
                        else:
                            nt.append(f"{key}|{vname}|{cls_}")
                    elif cls_ == Min:
                        # a constrained cover always exists in these worlds: every arc lies on a source-sink route, one route per arc plus one through the constraint
                        tags["constrained_min_unsolved"] += 1
    # dedupe violations by kind (keep first two of each)
    seen = collections.Counter()
    out = []
    for v in viol:
        seen[v["kind"]] += 1
        if seen[v["kind"]] <= 2:
            out.append(v)
    return {"v": out, "nt": nt, "tags": dict(tags), "out": f"{fam}:{ct}:{'viol' if viol else 'ok'}",
            "states": stats.states, "transitions": stats.transitions}
