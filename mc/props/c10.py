"""C10 - constraints, ignored elements and extra start/end nodes behave as documented."""
import collections
import itertools
import math

from .. import world, drivers, preds, sweep, fdworld, fit, common
from .. import oracles as O

SPEC = {
    "id": "C10",
    "level": "exploration",
    "design_ref": "DESIGN.md section 5, C10",
    "rule": ("cases = (instance of the world) x (feature family); families: cons_cover (MinPathCover(.Cycles), kPathCover(.Cycles) at optimum-1 / optimum) and cons_mfd "
             "(MinFlowDecomp(.Cycles)) with every constraint set from {each contiguous 2-3 arc sub-path, each non-contiguous co-route pair, an overlapping pair, a duplicated "
             "constraint} x coverage in {1, 0.6, 0.5, 0.34} (+ length coverage with a length attribute, DAG), greedy on/off; cons_err (kLeastAbsErrors / kMinPathError, DAG and cyclic, k=2) with one "
             "constraint; ignore_vs_scale0 (error_scaling 0 == elements_to_ignore, every arc, 5 classes); starts_ends (objective with an additional start / end never worse, and equal to the "
             "brute force over the enlarged route family). Judged: each constraint is contained to the coverage fraction in ONE returned route, and the objective equals the brute-force "
             "optimum over exactly the constraint-satisfying solutions. non-trivial = distinct (instance, family, configuration) solved and compared with an oracle value"),
    "assumptions": ["DAG constraints: a route contains a constraint to fraction c iff it uses >= c * len(constraint) of its arcs (lengths: >= c * total length); cyclic: distinct arcs used >= once",
                    "a route chosen only to satisfy a constraint may carry weight 0"],
}


def bounds(tier):
    q = tier == "quick"
    return {"dag": "W-DAG(n<=4) x 2 flows" if q else "W-DAG(n<=5, arcs<=6) x 2 flows", "cyclic": "cyclic W-DIG(n<=4, arcs<=5) + named x 1 flow" if q else "cyclic W-DIG(n<=4, arcs<=6)+W-NAMED x 2 flows",
            "coverage": [1, 0.6, 0.5, 0.34]}


def cases(tier, seed):
    q = tier == "quick"
    picked = set()
    for inst in sweep.dag_instances(tier, seed):
        picked.add(json_key(inst))
        for fam in ("cons_cover", "cons_mfd", "cons_err", "ignore_vs_scale0", "starts_ends"):
            yield dict(inst, family=fam)
    # every flow of the small shapes (incl. n=5 with <= 5 arcs: merge-then-split shapes where greedy peeling and constraints disagree), light configuration
    for idx, shp in enumerate(world.dag_shapes(5)):
        if len(shp[1]) > 5:
            continue
        names, arcs = world.present(shp, seed, idx)
        g, paths = fdworld.dag_routes(names, arcs)
        pa = [O.path_arcs(p) for p in paths]
        for fv in sorted(fdworld.fd_flows(pa, arcs, 3, 2)):
            inst = {"fam": "dag", "nodes": names, "arcs": [[u, v, w] for (u, v), w in zip(arcs, fv)]}
            if json_key(inst) not in picked:
                yield dict(inst, family="cons_mfd", light=True)
    for inst in sweep.cyc_instances(tier, seed, per_shape=1 if q else 2):
        for fam in ("cons_cover", "cons_mfd", "cons_err", "ignore_vs_scale0", "starts_ends"):
            yield dict(inst, family=fam)
    # graphs with more routes than arcs, every route a constraint (witness oracle)
    for spec in (FORCED_MANY[:2] + FORCED_MANY[4:5]) if q else FORCED_MANY:
        for cls in ("MinPathCover", "MinFlowDecomp", "MinPathCoverCycles", "MinFlowDecompCycles"):
            yield {"forced_many": list(spec), "family": "forced_many", "only_cls": cls}


FORCED_MANY = [("K", 2, 3), ("K", 3, 3), ("K", 4, 4), ("K", 4, 5), ("S", 3, 2, 2), ("S", 2, 2, 2, 2)]


def json_key(inst):
    return str(inst["nodes"]) + str(inst["arcs"])


def _constraint_sets(inst, cyc):
    V = inst["nodes"]
    E = [(a[0], a[1]) for a in inst["arcs"]]
    g = O.STGraph(V, E)
    if not cyc:
        paths = g.simple_paths()
        contig, noncontig = fdworld.dag_constraints(paths, 3)
    else:
        # subset constraints: pairs / triples of arcs lying on a common walk
        masks = O.coverable_masks(g, E)
        contig = []
        noncontig = []
        for a, b in itertools.combinations(range(len(E)), 2):
            if any((m >> a & 1) and (m >> b & 1) for m in masks):
                (contig if E[a][1] == E[b][0] or E[b][1] == E[a][0] else noncontig).append([E[a], E[b]])
    c2 = [c for c in contig if len(c) == 2]
    c3 = [c for c in contig if len(c) == 3]
    sets = [[c] for c in c2[:3]] + [[c] for c in c3[:3]] + [[c] for c in noncontig[:3]]
    allc = contig + noncontig
    for c1, c2 in itertools.combinations(allc, 2):
        if set(map(tuple, c1)) & set(map(tuple, c2)):
            sets.append([c1, c2])  # overlapping
            break
    if not cyc:
        full = [O.path_arcs(p) for p in paths if len(p) >= 3]
        if 2 <= len(full) <= 6:
            sets.append(full)  # every source-sink route as a constraint: forces all of them into the solution
    if allc:
        sets.append([allc[0], allc[0]])  # duplicated
        if len(allc) >= 2:
            sets.append([allc[0], allc[-1]])
    return sets


def _forced_many_graph(spec):
    """DAGs with MORE source-sink routes than arcs. ('K', p, q): sources a_i -> m -> sinks x_j (p*q routes, p+q arcs);
    ('S', w1, w2, ...): segments in series, segment i = w_i parallel ways (direct arc or through one middle node)."""
    arcs = []
    if spec[0] == "K":
        _, p, q = spec
        arcs = [(f"a{i}", "m") for i in range(p)] + [("m", f"x{j}") for j in range(q)]
        routes = [[(f"a{i}", "m"), ("m", f"x{j}")] for i in range(p) for j in range(q)]
    else:
        ways_per_seg = []
        for si, w in enumerate(spec[1:]):
            u, v = f"m{si}", f"m{si + 1}"
            ways = [[(u, v)]] + [[(u, f"s{si}w{t}"), (f"s{si}w{t}", v)] for t in range(w - 1)]
            for wy in ways:
                arcs += wy
            ways_per_seg.append(ways)
        routes = [sum(combo, []) for combo in itertools.product(*ways_per_seg)]
    nodes = list(dict.fromkeys(x for a in arcs for x in a))
    return nodes, arcs, routes


def _run_forced_many(case):
    """every source-sink route is a constraint: each needs its own path / walk (a route contains exactly one full route), so the
    optimum is the number of routes - more than the graph has arcs. Witness oracle: the routes themselves, weight 1 each."""
    viol, nt, tags = [], [], collections.Counter()
    nodes, arcs, routes = _forced_many_graph(tuple(case["forced_many"]))
    flow = collections.Counter(e for r in routes for e in r)
    inst = {"fam": "dag", "nodes": nodes, "arcs": [[u, v, flow[(u, v)]] for (u, v) in arcs]}
    cons = [[list(e) for e in r] for r in routes]
    opt = len(routes)
    for cls, ckey, rkey in (("MinPathCover", "subpath_constraints", "paths"), ("MinFlowDecomp", "subpath_constraints", "paths"),
                            ("MinPathCoverCycles", "subset_constraints", "walks"), ("MinFlowDecompCycles", "subset_constraints", "walks")):
        if case.get("only_cls") not in (None, cls):
            continue
        kw = {ckey: cons}
        if "Flow" in cls:
            kw["weight_type"] = "int"
        o = drivers.observe(dict(inst, cls=cls, kw=kw))
        tags["forced_many"] += 1
        ctx = f"{cls} on {case['forced_many']} ({len(arcs)} arcs) with each of its {opt} routes as a constraint"
        if o["exc"]:
            viol.append({"kind": "constraint_raises", "msg": f"{ctx} raised {o['exc']} in {o['phase']}"})
        elif not o["solved"]:
            viol.append({"kind": "constrained_optimum_not_found", "msg": f"{ctx}: not solved, although the {opt} routes themselves (weight 1 each) are a solution"})
        elif len(o["sol"][rkey]) != opt:
            viol.append({"kind": "constrained_optimum_wrong", "msg": f"{ctx}: {len(o['sol'][rkey])} routes; every constraint needs its own route, the optimum is {opt}"})
        else:
            got = sorted(tuple(r) for r in o["sol"][rkey])
            want = sorted(tuple([r[0][0]] + [e[1] for e in r]) for r in routes)
            if got != want:
                viol.append({"kind": "constraint_not_honoured", "msg": f"{ctx}: returned routes {got} are not the {opt} routes of the graph"})
            else:
                nt.append(f"forced_many|{case['forced_many']}|{cls}")
    return {"v": viol, "nt": nt, "tags": dict(tags), "out": "forced_many:" + ("viol" if viol else "ok")}


def run(case):
    if case.get("forced_many"):
        return _run_forced_many(case)
    viol = []
    nt = []
    tags = collections.Counter()
    fam = case["family"]
    inst = {k: case[k] for k in ("fam", "nodes", "arcs")}
    cyc = inst["fam"] == "cyc"
    V = inst["nodes"]
    E = [(a[0], a[1]) for a in inst["arcs"]]
    f = {(a[0], a[1]): a[2] for a in inst["arcs"]}
    g = O.STGraph(V, E)
    rkey = "walks" if cyc else "paths"
    ckey = "subset_constraints" if cyc else "subpath_constraints"
    ccov = "subset_constraints_coverage" if cyc else "subpath_constraints_coverage"
    key = world.shape_key((len(V), tuple(E))) + "|" + ",".join(str(f[e]) for e in E) + "|" + fam

    def enc(cset):
        return [[list(e) for e in c] for c in cset]

    def sat(arcset_or_counts, c, cov, lengths=None):
        """does a route (given as dict arc->traversals) contain constraint c to fraction cov?"""
        c = [tuple(e) for e in c]
        if lengths is not None:
            need = cov * sum(lengths.get(e, 1) for e in c)
            got = sum(lengths.get(e, 1) for e in c if arcset_or_counts.get(e, 0) > 0)
        elif cyc:
            cs = set(c)
            need = cov * len(cs)
            got = sum(1 for e in cs if arcset_or_counts.get(e, 0) > 0)
        else:
            need = cov * len(c)
            got = sum(1 for e in c if arcset_or_counts.get(e, 0) > 0)
        return got >= need - 1e-9

    if fam == "cons_cover":
        Min = "MinPathCoverCycles" if cyc else "MinPathCover"
        Kc = "kPathCoverCycles" if cyc else "kPathCover"
        lengths = {e: 1 + 2 * (i % 2) for i, e in enumerate(E)}
        linst = dict(inst, lengths={f"{u}|{v}": lengths[(u, v)] for (u, v) in E})
        for cset in _constraint_sets(inst, cyc):
            variants = [(cov, None) for cov in (1.0, 0.6, 0.5, 0.34)]
            if not cyc:
                variants += [(None, 0.5), (None, 0.3), (None, 1.0)]
            for cov, covlen in variants:
                if covlen is None:
                    opt = O.min_cover_constrained(g, E, cset, cov)
                    kw = {ckey: enc(cset), ccov: cov}
                    use = inst
                else:
                    opt = O.min_cover_constrained(g, E, cset, covlen, lengths=lengths)
                    kw = {ckey: enc(cset), "subpath_constraints_coverage_length": covlen, "length_attr": "length"}
                    use = linst
                if opt is None:
                    continue
                obs = drivers.observe(dict(use, cls=Min, kw=kw))
                tags["cons_cover"] += 1
                ctx = f"{Min}(constraints={cset}, coverage={cov}, coverage_length={covlen})"
                if obs["exc"] or not obs["solved"]:
                    viol.append({"kind": "constraint_model_failed", "msg": f"{ctx}: exc={obs['exc']} solved={obs['solved']}; a cover with {opt} routes satisfying the constraints exists"})
                    continue
                routes = obs["sol"][rkey]
                errs = preds.route_errors(inst, routes, cyc) + preds.cover_errors(inst, routes, "edge", [])
                errs += preds.constraint_errors(routes, cset, cov if cov is not None else 1.0, cyc, lengths if covlen is not None else None, covlen)
                if errs:
                    viol.append({"kind": "constraint_not_honoured", "msg": f"{ctx}: {errs[0]}", "routes": routes})
                elif len(routes) != opt:
                    viol.append({"kind": "constrained_optimum_wrong", "msg": f"{ctx}: {len(routes)} routes, the minimum over constraint-satisfying covers is {opt}", "routes": routes})
                else:
                    nt.append(f"{key}|{cset}|{cov}|{covlen}")
                for k in (opt - 1, opt):
                    if k < 1:
                        continue
                    o2 = drivers.observe(dict(use, cls=Kc, kw=dict(kw, k=k)))
                    if o2["exc"]:
                        viol.append({"kind": "constraint_model_failed", "msg": f"{Kc}(k={k}, {kw}) raised {o2['exc']}"})
                    elif o2["solved"] != (k >= opt):
                        viol.append({"kind": "constrained_feasibility_wrong", "msg": f"{Kc}(k={k}, constraints={cset}, coverage={cov}): solved={o2['solved']}, constrained optimum is {opt}"})
                    elif o2["solved"]:
                        errs = preds.cover_errors(inst, o2["sol"][rkey], "edge", [])
                        errs += preds.constraint_errors(o2["sol"][rkey], cset, cov if cov is not None else 1.0, cyc, lengths if covlen is not None else None, covlen)
                        if errs:
                            viol.append({"kind": "constraint_not_honoured", "msg": f"{Kc}(k={k}, constraints={cset}, coverage={cov}): {errs[0]}", "routes": o2["sol"][rkey]})
            if len(viol) > 4:
                break

    elif fam == "cons_mfd":
        Min = "MinFlowDecompCycles" if cyc else "MinFlowDecomp"
        if cyc:
            vec_all = O.walk_vectors(g, f)
            routes_cols = sorted(set(v for v, _, _ in vec_all))
        else:
            paths = g.simple_paths()
            routes_cols = [tuple(1 if e in O.path_arcs(p) else 0 for e in E) for p in paths]
        fvec = [f[e] for e in E]
        lengths = {e: 1 + (i % 3) for i, e in enumerate(E)}
        light = case.get("light")
        csets = _constraint_sets(inst, cyc)
        if light:
            csets = [c for c in csets if len(c) == 1 or len(c) > 2]
        for cset in csets:
            variants = [(cov, None) for cov in ((1.0, 0.6, 0.5, 0.34) if not light else (1.0, 0.6))]
            if not cyc and not light:
                variants += [(None, 0.5), (None, 1.0)]
            if not cyc:
                # the arcs carry a length attribute and the model is told about it (length_attr), but the coverage is still asked for
                # in numbers of edges: the lengths must not change anything
                variants += [(cov, "attr_only") for cov in ((1.0, 0.6) if not light else (1.0,))]
            for cov, covlen in variants:
                attr_only = covlen == "attr_only"
                if attr_only:
                    covlen = None
                cons_sets = []
                for c in cset:
                    if covlen is not None:
                        cons_sets.append(set(i for i, col in enumerate(routes_cols) if sat(dict(zip(E, col)), c, covlen, lengths)))
                    else:
                        cons_sets.append(set(i for i, col in enumerate(routes_cols) if sat(dict(zip(E, col)), c, cov)))
                opt, _ = O.min_decomp([list(c) for c in routes_cols], fvec, "int", cons_sets)
                if opt is None:
                    continue
                for greedy in (((True, False) if not light else (True,)) if not cyc else (None,)):
                    kw = {"weight_type": "int", ckey: enc(cset)}
                    use = inst
                    if covlen is not None:
                        kw["subpath_constraints_coverage_length"] = covlen
                        kw["length_attr"] = "length"
                        use = dict(inst, lengths={f"{u}|{v}": lengths[(u, v)] for (u, v) in E})
                    else:
                        kw[ccov] = cov
                        if attr_only:
                            kw["length_attr"] = "length"
                            use = dict(inst, lengths={f"{u}|{v}": 2 + lengths[(u, v)] for (u, v) in E})
                    if greedy is False:
                        kw["optimization_options"] = {"optimize_with_greedy": False}
                    obs = drivers.observe(dict(use, cls=Min, kw=kw))
                    tags["cons_mfd"] += 1
                    if attr_only:
                        tags["cons_mfd_length_attr_with_edge_count_coverage"] += 1
                    ctx = f"{Min}(constraints={cset}, coverage={cov}, coverage_length={covlen}, greedy={greedy}{', length_attr given (lengths 3..5)' if attr_only else ''})"
                    if obs["exc"] or not obs["solved"]:
                        viol.append({"kind": "constraint_model_failed", "msg": f"{ctx}: exc={obs['exc']} solved={obs['solved']}; a decomposition with {opt} routes satisfying the constraints exists"})
                        continue
                    routes = obs["sol"][rkey]
                    errs = preds.route_errors(inst, routes, cyc) + preds.explain_errors(inst, routes, obs["sol"]["weights"], "edge", [], "int")
                    errs += preds.constraint_errors(routes, cset, cov if cov is not None else 1.0, cyc, lengths if covlen is not None else None, covlen)
                    if errs:
                        viol.append({"kind": "constraint_not_honoured", "msg": f"{ctx}: {errs[0]}", "routes": routes})
                    elif len(routes) != opt:
                        viol.append({"kind": "constrained_optimum_wrong", "msg": f"{ctx}: {len(routes)} routes, the minimum over constraint-satisfying decompositions is {opt}", "routes": routes, "weights": obs["sol"]["weights"]})
                    else:
                        nt.append(f"{key}|{cset}|{cov}|{covlen}|{greedy}|{attr_only}")
            if len(viol) > 4:
                break

    elif fam == "cons_err":
        pin = sweep.perturbed(inst)
        pf = {(a[0], a[1]): a[2] for a in pin["arcs"]}
        F = max(pf.values())
        if len(E) > 5 or F > 4:
            return {"v": [], "nt": None, "tags": {"cons_err_skipped_large": 1}, "out": "skip"}
        if cyc:
            cols = sorted(set(v for v, _, _ in O.walk_vectors(g, {e: 2 for e in E})))
        else:
            cols = sorted(set(tuple(1 if e in O.path_arcs(p) else 0 for e in E) for p in g.simple_paths()))
        width = O.min_cover(g, E)
        for cset in _constraint_sets(inst, cyc)[:5]:
            for cov in (1.0, 0.5):
                def tuple_ok(routes, cset=cset, cov=cov):
                    return all(any(sat(dict(zip(E, cols[j])), c, cov) for j in routes) for c in cset)
                for cls, k in ((("kLeastAbsErrorsCycles" if cyc else "kLeastAbsErrors"), 2), (("kMinPathErrorCycles" if cyc else "kMinPathError"), max(2, width))):
                    if k > 2:
                        continue
                    fv = [pf[e] for e in E]
                    if "LeastAbs" in cls:
                        best, wit = fit.lae_opt(cols, fv, [1] * len(E), k, "int", F, tuple_ok=tuple_ok)
                    else:
                        best, wit = fit.mpe_opt(cols, fv, [1] * len(E), k, "int", F, tuple_ok=tuple_ok)
                    if best is None:
                        continue
                    kw = {"weight_type": "int", "k": k, ckey: enc(cset), ccov: cov}
                    obs = drivers.observe(dict(pin, cls=cls, kw=kw))
                    tags["cons_err"] += 1
                    ctx = f"{cls}(k={k}, constraints={cset}, coverage={cov})"
                    if obs["exc"] or not obs["solved"]:
                        kind = "constraint_model_failed"
                        if cyc and not obs["exc"]:
                            # is the model infeasible only because of its per-arc repetition cap (known finding D10)?
                            from ..known import _reach_caps
                            caps = _reach_caps(pin)
                            ccols = [c for c in cols if all(c[i] <= math.floor(caps[E[i]] + 1e-9) for i in range(len(E)))]

                            def tok3(routes, cset=cset, cov=cov, ccols=ccols):
                                return all(any(sat(dict(zip(E, ccols[j])), c, cov) for j in routes) for c in cset)
                            bc = None
                            if ccols:
                                bc, _ = (fit.lae_opt if "LeastAbs" in cls else fit.mpe_opt)(ccols, fv, [1] * len(E), k, "int", F, tuple_ok=tok3)
                            if bc is None:
                                kind = "constrained_optimum_beyond_cap"
                        viol.append({"kind": kind, "msg": f"{ctx}: exc={obs['exc']} solved={obs['solved']}; constrained optimum {best} exists ({wit})"})
                        continue
                    routes = obs["sol"][rkey]
                    used = max([1] + [c for r in routes for c in collections.Counter(zip(r[:-1], r[1:])).values()])
                    errs = preds.route_errors(pin, routes, cyc) + preds.constraint_errors(routes, cset, cov, cyc)
                    if errs:
                        viol.append({"kind": "constraint_not_honoured", "msg": f"{ctx}: {errs[0]}", "routes": routes})
                    elif obs["obj"] > best + 1e-6 and used <= 2:
                        kind = "constrained_optimum_wrong"
                        if cyc:
                            from ..known import _reach_caps
                            caps = _reach_caps(pin)
                            capped_idx = [j for j, c in enumerate(cols) if all(c[i] <= math.floor(caps[E[i]] + 1e-9) for i in range(len(E)))]
                            ccols = [cols[j] for j in capped_idx]

                            def tok2(routes, cset=cset, cov=cov, ccols=ccols):
                                return all(any(sat(dict(zip(E, ccols[j])), c, cov) for j in routes) for c in cset)
                            if ccols:
                                bc, _ = (fit.lae_opt if "LeastAbs" in cls else fit.mpe_opt)(ccols, fv, [1] * len(E), k, "int", F, tuple_ok=tok2)
                            else:
                                bc = None
                            if bc is None or obs["obj"] <= bc + 1e-6:
                                kind = "constrained_optimum_beyond_cap"
                        viol.append({"kind": kind, "msg": f"{ctx}: objective {obs['obj']}, brute-force optimum over constraint-satisfying solutions {best} ({wit})", "routes": routes})
                    elif obs["obj"] < best - 1e-6 and used <= 2:
                        viol.append({"kind": "oracle_beaten", "msg": f"{ctx}: objective {obs['obj']} < brute-force {best}", "routes": routes, "weights": obs["sol"].get("weights")})
                    else:
                        nt.append(f"{key}|{cls}|{cset}|{cov}")
            if len(viol) > 4:
                break

    elif fam == "ignore_vs_scale0":
        pin = sweep.perturbed(inst)
        classes = ["kLeastAbsErrorsCycles", "kMinPathErrorCycles"] if cyc else ["kLeastAbsErrors", "kMinPathError"]
        classes.append("MinErrorFlow")
        for e in E:
            rest = [x for x in E if x != e]
            if not rest or not any(dict(((a[0], a[1]), a[2]) for a in pin["arcs"])[x] for x in rest):
                continue
            for cls in classes:
                for wt in ("int", "float"):
                    if cls == "MinErrorFlow":
                        import flowpaths as fp
                        res = []
                        for kwx in ({"elements_to_ignore": [e]}, {"error_scaling": {e: 0}}):
                            try:
                                m = fp.MinErrorFlow(drivers.build_graph(pin), flow_attr="flow", weight_type=int if wt == "int" else float, solver_options={"threads": 1}, **kwx)
                                m.solve()
                                s_ = m.get_solution()
                                res.append(("solved", round(float(s_["objective_value"]), 5)))
                            except Exception as ex:
                                res.append(("exc", type(ex).__name__))
                    else:
                        w = O.min_cover(g, rest)
                        if not w or w > 3:
                            continue
                        k = 1 if "LeastAbs" in cls else w
                        res = []
                        for kwx in ({"elements_to_ignore": [list(e)]}, {"error_scaling": [[list(e), 0]]}):
                            o = drivers.observe(dict(pin, cls=cls, kw=dict(kwx, k=k, weight_type=wt)))
                            res.append(("exc", o["exc_type"]) if o["exc"] else (("solved", round(float(o["obj"]), 5)) if o["solved"] else ("unsolved",)))
                        if cyc and wt == "int":
                            # the same equivalence with the safe-sequence optimisation fed by a percentile of the flow values: an arc that is out
                            # of the model (either way) must not be trusted either - the removed arc is made the heaviest one, k = width + 1
                            heavy = dict(pin, arcs=[[a[0], a[1], (a[2] + 50 if (a[0], a[1]) == e else a[2])] for a in pin["arcs"]])
                            for kk in sorted({k, w + 1}):
                                rp = []
                                for kwx in ({"elements_to_ignore": [list(e)]}, {"error_scaling": [[list(e), 0]]}):
                                    o = drivers.observe(dict(heavy, cls=cls, kw=dict(kwx, k=kk, weight_type=wt, trusted_edges_for_safety_percentile=0)))
                                    rp.append(("exc", o["exc_type"]) if o["exc"] else (("solved", round(float(o["obj"]), 5)) if o["solved"] else ("unsolved",)))
                                tags["ignore_vs_scale0_trusted_percentile"] += 1
                                if rp[0] != rp[1]:
                                    viol.append({"kind": "ignore_differs_from_scale0", "msg": f"{cls}({wt}, k={kk}, trusted_edges_for_safety_percentile=0) on {heavy['arcs']}: elements_to_ignore=[{e}] gives {rp[0]}, error_scaling={{{e}: 0}} gives {rp[1]}"})
                                elif rp[0][0] == "solved":
                                    nt.append(f"{key}|{cls}|{wt}|{e}|pct|{kk}")
                    tags["ignore_vs_scale0"] += 1
                    if res[0] != res[1]:
                        viol.append({"kind": "ignore_differs_from_scale0", "msg": f"{cls}({wt}) on {pin['arcs']}: elements_to_ignore=[{e}] gives {res[0]}, error_scaling={{{e}: 0}} gives {res[1]}"})
                    elif res[0][0] == "solved":
                        nt.append(f"{key}|{cls}|{wt}|{e}")
            if len(viol) > 4:
                break
        # the VALUE carried by an ignored arc must not influence solvability or the objective (flow decompositions, covers excluded)
        FDmin = "MinFlowDecompCycles" if cyc else "MinFlowDecomp"
        FDk = "kFlowDecompCycles" if cyc else "kFlowDecomp"
        for e in E[:4]:
            rest = [x for x in E if x != e]
            if not rest:
                continue
            outs = []
            for val in (None, 0, f[e], f[e] + 25):
                arcs2 = [[a[0], a[1], (val if (a[0], a[1]) == e else a[2])] for a in inst["arcs"]]
                o = drivers.observe(dict(inst, arcs=arcs2, cls=FDmin, kw={"weight_type": "int", "elements_to_ignore": [list(e)]}))
                outs.append(("exc", o["exc_type"]) if o["exc"] else (("solved", len(o["sol"][rkey])) if o["solved"] else ("unsolved",)))
            tags["ignore_value"] += 1
            if len(set(outs)) != 1:
                viol.append({"kind": "ignored_value_matters", "msg": f"{FDmin} ignoring {e} on {inst['arcs']}: results for the ignored arc's value in (absent, 0, {f[e]}, {f[e] + 25}) are {outs}"})
            elif outs[0][0] == "solved":
                nt.append(f"{key}|ignval|{e}")
                kk = outs[0][1]
                ko = []
                for val in (0, f[e] + 25):
                    arcs2 = [[a[0], a[1], (val if (a[0], a[1]) == e else a[2])] for a in inst["arcs"]]
                    o = drivers.observe(dict(inst, arcs=arcs2, cls=FDk, kw={"weight_type": "int", "k": kk, "elements_to_ignore": [list(e)]}))
                    ko.append(("exc", o["exc_type"]) if o["exc"] else ("solved" if o["solved"] else "unsolved"))
                if len(set(ko)) != 1 or ko[0] != "solved":
                    viol.append({"kind": "ignored_value_matters", "msg": f"{FDk}(k={kk}) ignoring {e} on {inst['arcs']}: with the ignored arc's value 0 / {f[e] + 25}: {ko}"})
        if cyc:
            # elements_to_ignore_percentile == explicitly ignoring the arcs whose weight lies below that percentile
            import numpy as np
            pw = {(a[0], a[1]): a[2] for a in pin["arcs"]}
            for pct in (25, 50, 75):
                thr = np.percentile([pw[e] for e in E], pct)
                low = [e for e in E if pw[e] < thr]
                rest = [e for e in E if e not in low]
                if not low or not rest:
                    continue
                w = O.min_cover(g, rest)
                if not w or w > 3:
                    continue
                res = []
                for kwx in ({"elements_to_ignore_percentile": pct}, {"elements_to_ignore": [list(e) for e in low]}):
                    o = drivers.observe(dict(pin, cls="kMinPathErrorCycles", kw=dict(kwx, k=w, weight_type="int")))
                    res.append(("exc", o["exc_type"]) if o["exc"] else (("solved", round(float(o["obj"]), 5)) if o["solved"] else ("unsolved",)))
                tags["ignore_percentile"] += 1
                if res[0] != res[1]:
                    viol.append({"kind": "ignore_percentile_differs", "msg": f"kMinPathErrorCycles on {pin['arcs']}: elements_to_ignore_percentile={pct} gives {res[0]}, ignoring {low} explicitly gives {res[1]}"})
                elif res[0][0] == "solved":
                    nt.append(f"{key}|pct{pct}")
            # the same in node mode (node twin of the perturbed instance): percentile over the node values
            ntw = sweep.node_twin(pin)
            nv = {v_: x_ for v_, x_ in ntw["node_w"].items() if x_ is not None}
            for pct in (25, 50):
                thr = np.percentile(list(nv.values()), pct)
                lown = [v_ for v_ in V if v_ in nv and nv[v_] < thr]
                if not lown or len(lown) == len(nv):
                    continue
                res = []
                # (third run: the original arcs carry the attribute too, value 0 - in node mode they are ignored and must not enter the percentile)
                stray = dict(ntw, arcs=[[a_[0], a_[1], 0] for a_ in ntw["arcs"]])
                for gin, kwx in ((ntw, {"elements_to_ignore_percentile": pct}), (ntw, {"elements_to_ignore": list(lown)}), (stray, {"elements_to_ignore_percentile": pct})):
                    o = drivers.observe(dict(gin, cls="kMinPathErrorCycles", kw=dict(kwx, k=2, weight_type="int", flow_attr_origin="node")))
                    res.append(("exc", o["exc_type"], (o["exc"] or "")[:80]) if o["exc"] else (("solved", round(float(o["obj"]), 5)) if o["solved"] else ("unsolved",)))
                tags["ignore_percentile_node"] += 1
                if res[2] != res[0]:
                    viol.append({"kind": "ignore_percentile_differs", "msg": f"kMinPathErrorCycles (node mode) on node values {nv}: elements_to_ignore_percentile={pct} gives {res[0]}, but {res[2]} when the (ignored) original arcs carry the attribute with value 0"})
                elif res[0] != res[1]:
                    viol.append({"kind": "ignore_percentile_differs", "msg": f"kMinPathErrorCycles (node mode) on node values {nv}: elements_to_ignore_percentile={pct} gives {res[0]}, ignoring {lown} explicitly gives {res[1]}"})
                elif res[0][0] == "solved":
                    nt.append(f"{key}|node_pct{pct}")

    elif fam == "starts_ends":
        pin = sweep.perturbed(inst)
        inner = sweep.inner_nodes(inst)
        width = O.min_cover(g, E)
        classes = [("kLeastAbsErrorsCycles" if cyc else "kLeastAbsErrors", 1), ("kMinPathErrorCycles" if cyc else "kMinPathError", width),
                   ("MinPathCoverCycles" if cyc else "MinPathCover", None)]
        for cls, k in classes:
            if k is not None and k > 3:
                continue
            base_kw = {} if "Cover" in cls else {"weight_type": "int", "k": k}
            o0 = drivers.observe(dict(pin, cls=cls, kw=dict(base_kw)))
            if o0["exc"] or not o0["solved"]:
                continue
            v0 = o0["obj"]
            sinks_ = [x for x in V if not any(a == x for (a, b) in E)]
            sources_ = [x for x in V if not any(b == x for (a, b) in E)]
            for v in inner:
                single = {}
                # a start, an end, the same node as start AND end, and the node as start together with a natural sink declared
                # a start as well / as end together with a natural source declared an end as well
                for which, st, en in (("additional_starts", [v], []), ("additional_ends", [], [v]), ("start_and_end", [v], [v]),
                                      ("start+sink_as_start", [v] + sinks_[:1], []), ("end+source_as_end", [], [v] + sources_[:1])):
                    kw = dict(base_kw)
                    if st:
                        kw["additional_starts"] = list(st)
                    if en:
                        kw["additional_ends"] = list(en)
                    o1 = drivers.observe(dict(pin, cls=cls, kw=kw))
                    tags["starts_ends"] += 1
                    ctx = f"{cls}(additional_starts={st}, additional_ends={en})"
                    if o1["exc"] or not o1["solved"]:
                        viol.append({"kind": "start_end_breaks_model", "msg": f"{ctx}: exc={o1['exc']} solved={o1['solved']} although the model without it is solved"})
                        continue
                    single[which] = o1["obj"]
                    best_single = min([single[w_] for w_ in ("additional_starts", "additional_ends") if w_ in single] or [v0])
                    if which == "start_and_end" and o1["obj"] > best_single + 1e-6:
                        viol.append({"kind": "start_end_worsens_objective", "msg": f"{ctx}: objective {o1['obj']} although a start alone / an end alone gives {best_single} (declaring both only adds routes)"})
                        continue
                    if which == "start+sink_as_start" and "additional_starts" in single and o1["obj"] > single["additional_starts"] + 1e-6:
                        viol.append({"kind": "start_end_worsens_objective", "msg": f"{ctx}: objective {o1['obj']} > {single['additional_starts']} with the start {v} alone (a sink that is also a start must stay a sink)"})
                        continue
                    if which == "end+source_as_end" and "additional_ends" in single and o1["obj"] > single["additional_ends"] + 1e-6:
                        viol.append({"kind": "start_end_worsens_objective", "msg": f"{ctx}: objective {o1['obj']} > {single['additional_ends']} with the end {v} alone (a source that is also an end must stay a source)"})
                        continue
                    errs = preds.route_errors(pin, o1["sol"][rkey], cyc, st, en)
                    if errs:
                        viol.append({"kind": "start_end_invalid_route", "msg": f"{ctx}: {errs[0]}"})
                    elif o1["obj"] > v0 + 1e-6:
                        viol.append({"kind": "start_end_worsens_objective", "msg": f"{ctx}: objective {o1['obj']} > {v0} without it (the admissible routes only grow)"})
                    else:
                        if "Cover" in cls:
                            g2 = O.STGraph(V, E, st, en)
                            opt = O.min_cover(g2, E)
                            if opt != o1["obj"]:
                                viol.append({"kind": "start_end_optimum_wrong", "msg": f"{ctx}: {o1['obj']} routes, the minimum cover with the enlarged route family is {opt}"})
                                continue
                        nt.append(f"{key}|{cls}|{which}|{v}")
    seen = collections.Counter()
    out = []
    for v in viol:
        seen[v["kind"]] += 1
        if seen[v["kind"]] <= 2:
            out.append(v)
    return {"v": out, "nt": nt, "tags": dict(tags), "out": f"{fam}:{'viol' if viol else 'ok'}"}
