"""E-inputs / E-states / E-faults dispatcher: exhaustive parallel map of a property's case space.

A property module (mc/props/cNN.py) provides
    SPEC   = {"id", "level", "rule", "assumptions": [...], "design_ref"}
    cases(tier, seed) -> iterable of JSON-serialisable case dicts (the *complete* bounded space)
    run(case)         -> {"v": [violation dicts], "nt": key or None, "tags": [...], "out": str,
                          optional "states", "transitions", "traces"}
    bounds(tier)      -> dict describing the bound (printed in evidence)

Nothing is sampled: every case produced by cases() is executed unless the wall-clock cap is hit, in
which case the evidence says so (exhaustive: false) and reports what was completed.
"""
import collections
import hashlib
import importlib
import json
import multiprocessing as mp
import os
import random
import sys
import time
import traceback

from . import common
from . import known as known_mod

MAX_REPLAYS = 40


def _is_library_exception(tb_exc):
    repo = os.path.realpath(common.REPO) + os.sep
    tb = tb_exc.__traceback__
    last = None
    while tb is not None:
        last = tb
        tb = tb.tb_next
    if last is None:
        return False
    fn = os.path.realpath(last.tb_frame.f_code.co_filename)
    return fn.startswith(repo)


class CaseTimeout(BaseException):
    pass


class HarnessSlow(BaseException):
    pass


def _alarm(signum, frame):
    # Only a stack that is inside the library (or the solver called by it) is a library hang; a slow oracle is a harness problem
    repo = os.path.realpath(common.REPO) + os.sep
    f = frame
    while f is not None:
        fn = os.path.realpath(f.f_code.co_filename)
        if fn.startswith(repo) or os.sep + "highspy" + os.sep in fn:
            raise CaseTimeout()
        f = f.f_back
    raise HarnessSlow()


CASE_TIMEOUT = int(os.environ.get("VERIF_CASE_TIMEOUT", "240"))


def kick():
    """Re-arm the watchdog. A case that makes MANY library calls in a row (a fault plan each, a flag assignment each) calls this
    between them: the watchdog bounds the time of one unit of library work, not the length of the harness loop."""
    import signal
    try:
        signal.alarm(CASE_TIMEOUT)
    except Exception:
        pass


def rearm():
    """Re-install the watchdog's handler and re-arm it. The library's own custom timeout (SolverWrapper._run_with_timeout) replaces the
    process-wide SIGALRM handler and cancels the alarm; a case that exercises it calls this afterwards."""
    import signal
    try:
        signal.signal(signal.SIGALRM, _alarm)
        signal.alarm(CASE_TIMEOUT)
    except Exception:
        pass


def _work(arg):
    import signal
    try:
        signal.signal(signal.SIGALRM, _alarm)
        signal.alarm(CASE_TIMEOUT)
    except Exception:
        pass
    try:
        return _work_inner(arg)
    except HarnessSlow:
        return arg[1], None, f"HARNESS TOO SLOW: the reference model did not finish within {CASE_TIMEOUT}s on this case (not a library hang)"
    except CaseTimeout:
        return arg[1], {"v": [{"kind": "no_answer_within_timeout", "msg": f"the library did not return within {CASE_TIMEOUT}s on this case (normal cases take seconds): hang / non-termination"}],
                        "nt": None, "tags": [], "out": "timeout"}, None
    finally:
        try:
            signal.alarm(0)
        except Exception:
            pass


def _work_inner(arg):
    modname, case = arg
    try:
        common.bind()
        mod = importlib.import_module(f"mc.props.{modname}")
        t0 = time.perf_counter()
        from . import drivers as _drv
        _drv.RESCUE_COUNT = 0
        res = mod.run(case)
        res["_t"] = time.perf_counter() - t0
        if _drv.RESCUE_COUNT:
            tg = res.get("tags")
            if isinstance(tg, dict):
                tg["highs_presolve_rescue"] = tg.get("highs_presolve_rescue", 0) + _drv.RESCUE_COUNT
            elif isinstance(tg, list):
                tg.extend(["highs_presolve_rescue"] * _drv.RESCUE_COUNT)
        return case, res, None
    except (CaseTimeout, HarnessSlow):
        raise
    except SystemExit as e:
        return case, {"v": [{"kind": "system_exit", "msg": f"SystemExit({e.code}) escaped from the library"}],
                      "nt": None, "tags": [], "out": "system_exit"}, None
    except BaseException as e:  # noqa
        tbs = traceback.format_exc()
        if _is_library_exception(e):
            return case, {"v": [{"kind": "library_exception", "msg": common.exc_str(e), "tb": tbs[-1500:]}],
                          "nt": None, "tags": [], "out": "library_exception"}, None
        return case, None, tbs


def _work_batch(args):
    return [_work(a) for a in args]


def _init():
    try:
        common.bind()
    except BaseException:
        traceback.print_exc()


def case_hash(case):
    return hashlib.sha1(json.dumps(case, sort_keys=True, default=str).encode()).hexdigest()[:12]


class Report:
    def __init__(self, pid):
        self.pid = pid
        self.evals = 0
        self.nt = set()
        self.tags = collections.Counter()
        self.outs = collections.Counter()
        self.samples = []
        self.violations = []  # (case, violation)
        self.known_hits = collections.Counter()
        self.harness_errors = []
        self.states = 0
        self.transitions = 0
        self.traces = 0
        self.slowest = (0.0, None)
        self.nt_extra = 0

    def add(self, case, res, err, kf):
        self.evals += 1
        if err is not None:
            self.harness_errors.append((case, err))
            return
        if res.get("nt") is not None:
            nt = res["nt"]
            if isinstance(nt, (list, tuple, set)):
                self.nt.update(str(x) for x in nt)
            else:
                self.nt.add(str(nt))
        self.nt_extra += int(res.get("nt_n", 0))
        tg = res.get("tags", [])
        if isinstance(tg, dict):
            for t, c in tg.items():
                self.tags[t] += c
        else:
            for t in tg:
                self.tags[t] += 1
        self.outs[str(res.get("out"))] += 1
        self.states += int(res.get("states", 0))
        self.transitions += int(res.get("transitions", 0))
        self.traces += int(res.get("traces", 0))
        if res.get("_t", 0) > self.slowest[0]:
            self.slowest = (res["_t"], case)
        if len(self.samples) < 3 and (res.get("nt") is not None or res.get("nt_n")):
            self.samples.append(case)
        for v in res.get("v", []):
            ent = kf.match(self.pid, case, v)
            if ent is not None:
                self.known_hits[ent["id"]] += 1
            else:
                self.violations.append((case, v))


def run_property(pid, modname, tier, seed, workers=None, cap_s=None, only=None):
    t0 = time.time()
    mod = importlib.import_module(f"mc.props.{modname}")
    spec = mod.SPEC
    kf = known_mod.KnownFindings()
    cases = list(mod.cases(tier, seed))
    if only:
        cases = [c for c in cases if only in json.dumps(c, sort_keys=True, default=str)]
    total = len(cases)
    if seed:
        random.Random(seed).shuffle(cases)
    if workers is None:
        workers = int(os.environ.get("VERIF_WORKERS", "0")) or min(16, os.cpu_count() or 4)
    if cap_s is None:
        cap_s = float(os.environ.get("VERIF_CAP_S", "0")) or (900 if tier == "quick" else 5400)
    rep = Report(pid)
    capped = False
    if workers <= 1 or total <= 2:
        common.bind()
        for c in cases:
            rep.add(*_work((modname, c)), kf)
            if time.time() - t0 > cap_s:
                capped = True
                break
    else:
        ctx = mp.get_context("spawn")
        chunk = max(1, min(64, total // (workers * 8) or 1))
        if getattr(mod, "CHUNK", None):
            chunk = mod.CHUNK
        pool = ctx.Pool(workers, initializer=_init)
        try:
            batches = ([(modname, c) for c in cases[i:i + chunk]] for i in range(0, total, chunk))
            it = pool.imap_unordered(_work_batch, batches, chunksize=1)
            while True:
                try:
                    remaining = cap_s - (time.time() - t0)
                    if remaining <= 0:
                        raise mp.TimeoutError()
                    batch = it.next(timeout=remaining)
                except StopIteration:
                    break
                except mp.TimeoutError:
                    capped = True
                    break
                for case, res, err in batch:
                    rep.add(case, res, err, kf)
        finally:
            pool.terminate()
            pool.join()
    wall = time.time() - t0
    return finish(pid, mod, spec, tier, seed, rep, total, capped, cap_s, wall, kf)


def finish(pid, mod, spec, tier, seed, rep, total, capped, cap_s, wall, kf):
    out_dir = os.path.join(common.OUT, "replays", pid)
    exit_code = 0
    lines = []
    # known findings
    for ent in kf.entries_for(pid):
        if ent["status"] == "known" and rep.known_hits.get(ent["id"], 0) > 0:
            lines.append(f"KNOWN-FINDING: property={pid} {ent['what']} [{ent['id']}; {rep.known_hits[ent['id']]} case(s) this run]")
    # violations
    written = 0
    seen_kinds = collections.Counter()
    if os.path.isdir(out_dir):
        for fn in os.listdir(out_dir):
            if fn.endswith(".json"):
                try:
                    os.remove(os.path.join(out_dir, fn))
                except OSError:
                    pass
    if rep.violations:
        os.makedirs(out_dir, exist_ok=True)
    for case, v in rep.violations:
        seen_kinds[v.get("kind")] += 1
        if written >= MAX_REPLAYS or seen_kinds[v.get("kind")] > 3:
            continue
        path = os.path.join(out_dir, f"{v.get('kind','violation')}_{case_hash(case)}_{seen_kinds[v.get('kind')]}.json")
        with open(path, "w") as f:
            json.dump({"property": pid, "tier": tier, "seed": seed, "case": case, "violation": v,
                       "replay_cmd": f"./check {pid} --replay {path}"}, f, indent=1, default=str)
        lines.append(f"VIOLATION property={pid} replay={path}")
        lines.append(f"  kind={v.get('kind')} {str(v.get('msg',''))[:300]}")
        written += 1
    if rep.violations:
        exit_code = 1
        import re
        hist = collections.Counter()
        for case, v in rep.violations:
            hist[v.get("kind", "") + " | " + re.sub(r"\(['\w]+, ?['\w]+\)|\d+(\.\d+)?", "#", str(v.get("msg", "")))[:150]] += 1
        for k, c in hist.most_common(25):
            lines.append(f"  [{c:5d}] {k}")
        lines.append(f"  total violating observations: {len(rep.violations)} by kind {dict(seen_kinds)}")
    for case, err in rep.harness_errors[:3]:
        lines.append("HARNESS-ERROR " + json.dumps(case, default=str)[:300])
        lines.append(err[-1200:])
    if rep.harness_errors and exit_code == 0:
        exit_code = 2
    level = spec["level"]
    cov = {
        "evaluations": rep.evals,
        "distinct_nontrivial": len(rep.nt) + rep.nt_extra,
        "rule": spec["rule"],
        "samples": rep.samples[:3] if rep.samples else [],
        "exhaustive": (not capped) and rep.evals == total and not rep.harness_errors,
        "cases_generated": total,
        "bounds": mod.bounds(tier) if hasattr(mod, "bounds") else {},
        "route_counters": dict(sorted(rep.tags.items())),
        "distinct_outcomes": len(rep.outs),
        "outcome_histogram": dict(rep.outs.most_common(12)),
        "known_finding_hits": dict(rep.known_hits),
        "slowest_case_s": round(rep.slowest[0], 3),
    }
    if capped:
        cov["cap_hit_s"] = cap_s
    if level == "model_checking":
        cov["states"] = rep.states
        cov["transitions"] = rep.transitions
        cov["traces_validated_against_impl"] = rep.traces
    ev = {
        "property_id": pid,
        "tier": tier,
        "seed": int(seed),
        "level": level,
        "coverage": cov,
        "assumptions": spec.get("assumptions", []),
        "wall_s": round(wall, 2),
        "violations": len(rep.violations),
    }
    os.makedirs(os.path.join(common.OUT, "evidence"), exist_ok=True)
    with open(os.path.join(common.OUT, "evidence", f"{pid}.json"), "w") as f:
        json.dump(ev, f, indent=1, default=str)
    if exit_code == 0 and (len(rep.nt) + rep.nt_extra < 2 or (level == "model_checking" and (rep.states < 1 or rep.transitions < 1))):
        lines.append(f"VACUOUS: property={pid} only {len(rep.nt) + rep.nt_extra} non-trivial distinct case(s) - the check exercised nothing")
        exit_code = 2
    for ln in lines:
        print(ln)
    print(f"[{pid}] tier={tier} seed={seed} cases={rep.evals}/{total} nontrivial={len(rep.nt) + rep.nt_extra} outcomes={len(rep.outs)} "
          f"violations={len(rep.violations)} known={sum(rep.known_hits.values())} wall={wall:.1f}s "
          f"exhaustive={cov['exhaustive']}")
    if rep.tags:
        print(f"[{pid}] counters: " + ", ".join(f"{k}={v}" for k, v in sorted(rep.tags.items())))
    return exit_code


def replay(pid, modname, path):
    common.bind()
    mod = importlib.import_module(f"mc.props.{modname}")
    kf = known_mod.KnownFindings()
    with open(path) as f:
        data = json.load(f)
    case = data["case"] if "case" in data else data
    obs = []
    for _ in range(2):
        c, res, err = _work((modname, case))
        if err:
            print("HARNESS-ERROR", err)
            return 2
        obs.append(sorted((v.get("kind"), str(v.get("msg"))) for v in res["v"]))
    if obs[0] != obs[1]:
        print("HARNESS ERROR: replaying the same case twice gave different observations")
        print(obs[0])
        print(obs[1])
        return 2
    print(json.dumps(case, indent=1, default=str)[:3000])
    code = 0
    for v in res["v"]:
        ent = kf.match(pid, case, v)
        if ent is not None:
            print(f"KNOWN-FINDING: property={pid} {ent['what']} [{ent['id']}]")
        else:
            print(f"VIOLATION property={pid} replay={path}")
            print(json.dumps(v, indent=1, default=str)[:4000])
            code = 1
    if not res["v"]:
        print(f"[{pid}] replay: no violation; outcome={res.get('out')} tags={res.get('tags')}")
    return code
