"""Drivers: abstract JSON case -> real flowpaths objects -> solution-independent observation.

Case keys used here:
  nodes: [names]            arcs: [[u, v, w|None], ...]  (w = edge weight; None = attribute absent)
  node_w: {name: w}         (node-weighted input; nodes absent from the dict lack the attribute)
  lengths: {"u|v": len}     optional length attribute on arcs
  cls: class name           kw: kwargs with JSON encodings (see decode_kw)
"""
import copy

from . import common

DAG_CLASSES = ["kFlowDecomp", "MinFlowDecomp", "kLeastAbsErrors", "kMinPathError", "kPathCover", "MinPathCover"]
CYC_CLASSES = ["kFlowDecompCycles", "MinFlowDecompCycles", "kLeastAbsErrorsCycles", "kMinPathErrorCycles",
               "kPathCoverCycles", "MinPathCoverCycles"]
COVER_CLASSES = ["kPathCover", "MinPathCover", "kPathCoverCycles", "MinPathCoverCycles"]
FD_CLASSES = ["kFlowDecomp", "MinFlowDecomp", "kFlowDecompCycles", "MinFlowDecompCycles"]


RESCUE_COUNT = 0


def is_cyclic_class(cls):
    return cls.endswith("Cycles")


def route_key(cls):
    return "walks" if is_cyclic_class(cls) else "paths"


def build_graph(case):
    import networkx as nx
    G = nx.DiGraph()
    node_w = case.get("node_w")
    for v in case["nodes"]:
        if node_w is not None and v in node_w and node_w[v] is not None:
            G.add_node(v, flow=node_w[v])
        else:
            G.add_node(v)
    for v, ln in (case.get("node_lengths") or {}).items():
        G.nodes[v]["length"] = ln
    lengths = case.get("lengths") or {}
    for a in case["arcs"]:
        u, v = a[0], a[1]
        w = a[2] if len(a) > 2 else None
        attrs = {}
        if w is not None:
            attrs["flow"] = w
        if f"{u}|{v}" in lengths:
            attrs["length"] = lengths[f"{u}|{v}"]
        G.add_edge(u, v, **attrs)
    if case.get("graph_id"):
        G.graph["id"] = case["graph_id"]
    return G


def _tup_edges(lst):
    return [tuple(e) if isinstance(e, list) else e for e in lst]


def decode_kw(kw):
    out = {}
    for k, v in kw.items():
        if k == "weight_type":
            out[k] = {"int": int, "float": float, "str": str}.get(v, v)
        elif k == "elements_to_ignore":
            out[k] = _tup_edges(v)
        elif k in ("subpath_constraints", "subset_constraints"):
            out[k] = [_tup_edges(c) if isinstance(c, list) else c for c in v] if isinstance(v, list) else v
        elif k == "error_scaling":
            # encoded as list of [element, factor]
            d = {}
            for el, f in v:
                d[tuple(el) if isinstance(el, list) else el] = f
            out[k] = d
        elif k == "path_length_ranges":
            out[k] = [tuple(r) for r in v]
        elif k == "trusted_edges_for_safety":
            out[k] = _tup_edges(v)
        elif k == "solver_options":
            out[k] = dict(v)
        else:
            out[k] = copy.deepcopy(v)
    return out


def construct(case, G=None, extra_kw=None):
    """Instantiate the model class named in the case. Returns the model (exceptions propagate)."""
    import flowpaths as fp
    cls = getattr(fp, case["cls"])
    if G is None:
        G = build_graph(case)
    kw = decode_kw(case.get("kw", {}))
    if extra_kw:
        kw.update(extra_kw)
    so = dict(common.SOLVER_OPTS)
    so.update(kw.get("solver_options") or {})
    kw["solver_options"] = so
    if case["cls"] in COVER_CLASSES:
        return cls(G, **kw)
    return cls(G, flow_attr="flow", **kw)


def observe(case, G=None, extra_kw=None, rescue=True):
    """Construct + solve + read. Returns dict with exc / solved / sol / obj / model / status.
    Trusted-base guard: if the model ends unsolved with status kInfeasible, it is re-run once with HiGHS presolve
    switched off (a documented solver option); if that run is solved, the first verdict was a HiGHS presolve error
    (observed on the pinned highspy: a feasible 17-column MinErrorFlow model is declared infeasible by presolve), the
    second observation is used and obs['presolve_rescue'] is set so that the check can count it."""
    obs = _observe(case, G, extra_kw)
    if rescue and obs["exc"] is None and obs["solved"] is False:
        kw2 = dict(extra_kw or {})
        so = dict((case.get("kw", {}) or {}).get("solver_options") or {})
        so.update(kw2.get("solver_options") or {})
        so["presolve"] = "off"
        kw2["solver_options"] = so
        obs2 = _observe(case, G, kw2)
        if obs2["exc"] is None and obs2["solved"]:
            obs2["presolve_rescue"] = True
            global RESCUE_COUNT
            RESCUE_COUNT += 1
            return obs2
    return obs


def _observe(case, G=None, extra_kw=None):
    obs = {"exc": None, "exc_type": None, "solved": None, "sol": None, "obj": None, "model": None, "phase": None}
    try:
        obs["phase"] = "construct"
        m = construct(case, G, extra_kw)
        obs["model"] = m
        obs["phase"] = "solve"
        r = m.solve()
        if case.get("solve_twice"):
            # history: the same object is solved again before anything is read (HiGHS may return another optimum)
            r = m.solve()
        obs["solve_ret"] = r
        obs["solved"] = bool(m.is_solved())
        if obs["solved"]:
            obs["phase"] = "get_solution"
            obs["sol"] = m.get_solution(**(case.get("get_solution_kw") or {}))
            obs["phase"] = "get_objective_value"
            obs["obj"] = m.get_objective_value()
        obs["phase"] = "done"
    except SystemExit as e:
        obs["exc"] = f"SystemExit({e.code})"
        obs["exc_type"] = "SystemExit"
    except Exception as e:  # noqa
        obs["exc"] = common.exc_str(e)
        obs["exc_type"] = type(e).__name__
    return obs


def status_of(m):
    try:
        return m.solver.get_model_status()
    except Exception:
        return None


def objective_without_presolve(case, G=None):
    """Trusted-base guard for OPTIMALITY verdicts: HiGHS presolve occasionally returns a sub-optimal point as kOptimal on the
    pinned highspy (a 13-column kLeastAbsErrorsCycles model: 5 with presolve, 3 without). Before a check reports 'not optimal'
    it re-runs the same call with the documented solver option presolve=off and judges that answer; the event is counted."""
    kw = dict(case.get("kw", {}) or {})
    so = dict(kw.get("solver_options") or {})
    so["presolve"] = "off"
    kw["solver_options"] = so
    return _observe(dict(case, kw=kw), G)
