"""Brute-force optima for the error models: k-Least-Absolute-Errors (C07), k-Min-Path-Error (C08).

A route is given by its column: the number of traversals of each non-ignored element.
"""
import itertools
from fractions import Fraction


def _solve_square(A, b):
    """exact solve of a k x k system (list of rows), None if singular"""
    k = len(A)
    M = [[Fraction(x) for x in row] + [Fraction(bb)] for row, bb in zip(A, b)]
    for c in range(k):
        p = None
        for r in range(c, k):
            if M[r][c] != 0:
                p = r
                break
        if p is None:
            return None
        M[c], M[p] = M[p], M[c]
        inv = M[c][c]
        M[c] = [x / inv for x in M[c]]
        for r in range(k):
            if r != c and M[r][c] != 0:
                fct = M[r][c]
                M[r] = [x - fct * y for x, y in zip(M[r], M[c])]
    return [M[i][k] for i in range(k)]


def lae_value(cols_sel, ws, f, scale):
    tot = 0
    for j in range(len(f)):
        s = sum(w * c[j] for c, w in zip(cols_sel, ws))
        tot += scale[j] * abs(f[j] - s)
    return tot


def lae_opt(cols, f, scale, k, wtype, F, weights_pool=None, max_used=None, tuple_ok=None):
    """min over k routes (with repetition) and weights >= 0 of sum_e scale_e |f_e - sum_i w_i x_i(e)|.
    weights_pool: if given (solution_weights_superset), each route takes a distinct entry of the pool and at most
    max_used routes are used. Returns (value, witness)."""
    n = len(cols)
    m = len(f)
    best = None
    wit = None
    if weights_pool is not None:
        pool = list(weights_pool)
        for r in range(0, min(max_used, len(pool)) + 1):
            for idxs in itertools.combinations(range(len(pool)), r):
                for routes in itertools.product(range(n), repeat=r):
                    val = lae_value([cols[j] for j in routes], [pool[i] for i in idxs], f, scale)
                    if best is None or val < best - 1e-12:
                        best, wit = val, {"routes": list(routes), "weights": [pool[i] for i in idxs]}
        return best, wit
    for routes in itertools.combinations_with_replacement(range(n), k):
        if tuple_ok is not None and not tuple_ok(routes):
            continue
        sel = [cols[j] for j in routes]
        if wtype == "int":
            for ws in itertools.product(range(F + 1), repeat=k):
                val = lae_value(sel, ws, f, scale)
                if best is None or val < best:
                    best, wit = val, {"routes": list(routes), "weights": list(ws)}
        else:
            # vertices of the arrangement {residual_e = 0} U {w_i = 0}
            planes = []
            for j in range(m):
                row = [c[j] for c in sel]
                if any(row):
                    planes.append((row, f[j]))
            for i in range(k):
                planes.append(([1 if t == i else 0 for t in range(k)], 0))
            seen = set()
            for combo in itertools.combinations(range(len(planes)), k):
                sol = _solve_square([planes[c][0] for c in combo], [planes[c][1] for c in combo])
                if sol is None or any(x < 0 for x in sol):
                    continue
                key = tuple(sol)
                if key in seen:
                    continue
                seen.add(key)
                val = lae_value(sel, sol, [Fraction(x) for x in f], [Fraction(s).limit_denominator(1000) for s in scale])
                if best is None or val < best:
                    best, wit = val, {"routes": list(routes), "weights": [str(x) for x in sol]}
    return (float(best) if best is not None else None), wit


def _min_slack_int(need, sel, k, ub, best_total):
    """min sum rho (ints in 0..ub) with sum_i rho_i*sel[i][j] >= need[j] for all j; returns total or None (>= best_total)"""
    best = [best_total]
    found = [None]

    def rec(i, rho, tot):
        if best[0] is not None and tot >= best[0]:
            return
        if i == k:
            if all(sum(r * c[j] for r, c in zip(rho, sel)) >= need[j] - 1e-9 for j in range(len(need))):
                best[0] = tot
                found[0] = list(rho)
            return
        for r in range(0, ub + 1):
            rec(i + 1, rho + [r], tot + r)
    rec(0, [], 0)
    return (best[0], found[0]) if found[0] is not None else (None, None)


def mpe_opt_pool(cols, f, scale, pool, max_used, F):
    """integer MPE optimum when every route takes a distinct entry of `pool` as weight and at most max_used routes are used"""
    n = len(cols)
    m = len(f)
    best = None
    wit = None
    pool = list(pool)
    for r in range(0, min(max_used, len(pool)) + 1):
        for idxs in itertools.combinations(range(len(pool)), r):
            for routes in itertools.product(range(n), repeat=r):
                sel = [cols[j] for j in routes]
                ws = [pool[i] for i in idxs]
                need = [scale[j] * abs(f[j] - sum(w * c[j] for c, w in zip(sel, ws))) for j in range(m)]
                if r == 0:
                    if all(x <= 1e-9 for x in need):
                        tot, rho = 0, []
                    else:
                        continue
                else:
                    tot, rho = _min_slack_int(need, sel, r, max(1, r) * max(F, max(pool)) + 1, best)
                if tot is not None and (best is None or tot < best):
                    best, wit = tot, {"routes": list(routes), "weights": ws, "slacks": rho}
    return (float(best) if best is not None else None), wit


def mpe_opt(cols, f, scale, k, wtype, F, factors=None, tuple_ok=None):
    """min total slack: routes (with repetition), weights w_i >= 0 and slacks rho_i >= 0 with, for every element,
    |f_e - sum_i w_i x_i(e)| * scale_e <= sum_i rho_i * factor_i * x_i(e).  factors: optional per-route slack factor
    (path-length scaling), aligned with cols.  int: exhaustive; float: vertex enumeration of the LP per route tuple
    (exact Fractions).  Returns (value, witness) or (None, None) if infeasible (some element with positive need lies on no chosen route
    for every route choice)."""
    n = len(cols)
    m = len(f)
    best = None
    wit = None
    for routes in itertools.combinations_with_replacement(range(n), k):
        if tuple_ok is not None and not tuple_ok(routes):
            continue
        sel = [cols[j] for j in routes]
        fac = [1 if factors is None else factors[j] for j in routes]
        selg = [[c[j] * fc for j in range(m)] for c, fc in zip(sel, fac)]
        if wtype == "int":
            for ws in itertools.product(range(F + 1), repeat=k):
                need = [scale[j] * abs(f[j] - sum(w * c[j] for c, w in zip(sel, ws))) for j in range(m)]
                tot, rho = _min_slack_int(need, selg, k, k * F + 1, best)
                if tot is not None and (best is None or tot < best):
                    best, wit = tot, {"routes": list(routes), "weights": list(ws), "slacks": rho}
        else:
            # LP in (w, rho): vertices = 2k tight constraints among: +-(f - Aw) s <= G rho (2 per element), w_i=0, rho_i=0
            planes = []
            for j in range(m):
                a = [Fraction(c[j]) for c in sel]
                gcoef = [Fraction(c[j]) for c in selg]
                s = Fraction(scale[j]).limit_denominator(1000)
                # s*(f - a.w) - g.rho = 0   and  -s*(f - a.w) - g.rho = 0
                planes.append(([-s * x for x in a] + [-y for y in gcoef], -s * f[j]))
                planes.append(([s * x for x in a] + [-y for y in gcoef], s * f[j]))
            for i in range(2 * k):
                planes.append(([1 if t == i else 0 for t in range(2 * k)], 0))
            seen = set()
            for combo in itertools.combinations(range(len(planes)), 2 * k):
                sol = _solve_square([planes[c][0] for c in combo], [planes[c][1] for c in combo])
                if sol is None or any(x < 0 for x in sol):
                    continue
                key = tuple(sol)
                if key in seen:
                    continue
                seen.add(key)
                w = sol[:k]
                rho = sol[k:]
                ok = True
                for j in range(m):
                    s = Fraction(scale[j]).limit_denominator(1000)
                    err = abs(f[j] - sum(x * c[j] for x, c in zip(w, sel))) * s
                    if err > sum(r * c[j] for r, c in zip(rho, selg)):
                        ok = False
                        break
                if not ok:
                    continue
                tot = sum(rho)
                if best is None or tot < best:
                    best, wit = tot, {"routes": list(routes), "weights": [str(x) for x in w], "slacks": [str(x) for x in rho]}
    return (float(best) if best is not None else None), wit
