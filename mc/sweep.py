"""Shared instance / configuration sweep used by C01, C02, C05, C10 and C11.

An *instance* is a shape with a positive conserving integer flow (built from a superposition of routes) and a
perturbed variant of it (for the error models). A *configuration* deviates from the default call in a bounded
number of dimensions (k, weight type, origin, ignored element, additional start / end, constraint, optimisation flags).
"""
import itertools
import math

from . import world, fdworld
from . import oracles as O

DAG_CLASSES = ["kFlowDecomp", "MinFlowDecomp", "kLeastAbsErrors", "kMinPathError", "kPathCover", "MinPathCover"]
CYC_CLASSES = ["kFlowDecompCycles", "MinFlowDecompCycles", "kLeastAbsErrorsCycles", "kMinPathErrorCycles", "kPathCoverCycles", "MinPathCoverCycles"]
FD = {"kFlowDecomp", "MinFlowDecomp", "kFlowDecompCycles", "MinFlowDecompCycles"}
COVER = {"kPathCover", "MinPathCover", "kPathCoverCycles", "MinPathCoverCycles"}
ERRM = {"kLeastAbsErrors", "kMinPathError", "kLeastAbsErrorsCycles", "kMinPathErrorCycles"}
ACCEPTS_STARTS = {"kLeastAbsErrors", "kMinPathError", "kPathCover", "MinPathCover", "kFlowDecompCycles", "kLeastAbsErrorsCycles", "kMinPathErrorCycles",
                  "kPathCoverCycles", "MinPathCoverCycles"}

DAG_FLAGS = ["optimize_with_safe_paths", "optimize_with_safe_sequences", "optimize_with_safe_zero_edges", "optimize_with_subpath_constraints_as_safe_sequences",
             "optimize_with_safety_as_subpath_constraints", "optimize_with_safety_from_largest_antichain"]
DAG_DEFAULTS = {"optimize_with_safe_paths": True, "optimize_with_safe_sequences": False, "optimize_with_safe_zero_edges": True,
                "optimize_with_subpath_constraints_as_safe_sequences": True, "optimize_with_safety_as_subpath_constraints": False,
                "optimize_with_safety_from_largest_antichain": False}
FD_DAG_FLAGS = ["optimize_with_greedy", "optimize_with_flow_safe_paths"]
CYC_FLAGS = ["optimize_with_safe_sequences", "optimize_with_safe_sequences_allow_geq_constraints", "optimize_with_safe_sequences_fix_via_bounds",
             "optimize_with_safe_sequences_fix_zero_edges", "optimize_with_safety_as_subset_constraints", "optimize_with_max_safe_antichain_as_subset_constraints"]
CYC_DEFAULTS = {"optimize_with_safe_sequences": True, "optimize_with_safe_sequences_allow_geq_constraints": True, "optimize_with_safe_sequences_fix_via_bounds": False,
                "optimize_with_safe_sequences_fix_zero_edges": True, "optimize_with_safety_as_subset_constraints": False,
                "optimize_with_max_safe_antichain_as_subset_constraints": False}


def is_cyc(cls):
    return cls.endswith("Cycles")


def dag_instances(tier, seed, per_shape=2, nmax=None):
    q = tier == "quick"
    nmax = nmax or 5
    out = []
    for idx, shp in enumerate(world.dag_shapes(nmax)):
        if shp[0] == 5 and len(shp[1]) > (5 if q else 6):
            continue
        names, arcs = world.present(shp, seed, idx)
        g, paths = fdworld.dag_routes(names, arcs)
        pa = [O.path_arcs(p) for p in paths]
        flows = sorted(fdworld.fd_flows(pa, arcs, 3 if shp[0] <= 4 else 2, 3))
        pick = [flows[0], flows[-1], flows[len(flows) // 2]][:per_shape] if flows else []
        for fv in dict.fromkeys(pick):
            out.append({"fam": "dag", "nodes": names, "arcs": [[u, v, w] for (u, v), w in zip(arcs, fv)]})
    return out


def dag_zero_flow_instances(tier, seed, per_shape=2):
    """conserving integer flows in which at least one arc (hence possibly a node) carries flow 0"""
    q = tier == "quick"
    out = []
    for idx, shp in enumerate(world.dag_shapes(5)):
        if len(shp[1]) > (5 if q else 6) or len(shp[1]) < 2:
            continue
        names, arcs = world.present(shp, seed, idx)
        g, paths = fdworld.dag_routes(names, arcs)
        pa = [O.path_arcs(p) for p in paths]
        flows = sorted(f for f in fdworld.fd_flows(pa, arcs, 2, 3, positive=False) if min(f) == 0)
        pick = [flows[0], flows[-1], flows[len(flows) // 2]][:per_shape] if flows else []
        for fv in dict.fromkeys(pick):
            out.append({"fam": "dag", "nodes": names, "arcs": [[u, v, w] for (u, v), w in zip(arcs, fv)], "zero": True})
    return out


def dag_float_data_instances(tier, seed, per_shape=3):
    """conserving flows with non-dyadic float values: superpositions of routes with weights from {0.1, 0.7, 0.3}, the arc value
    being the float sum in route order; kept only if the library's own (exact) conservation test accepts it (that test defines
    the domain of the flow-decomposition classes)"""
    q = tier == "quick"
    out = []
    wsets = [(0.1, 0.7), (0.7, 0.1), (0.3, 0.1, 0.7), (0.9, 0.6, 0.4), (1.6, 0.3, 0.2), (0.9, 0.5, 0.5), (0.4, 0.1, 0.2), (0.6, 0.9), (0.2, 1.6, 0.3, 0.9)]
    for idx, shp in enumerate(world.dag_shapes(5)):
        if len(shp[1]) > (5 if q else 6) or len(shp[1]) < 3:
            continue
        names, arcs = world.present(shp, seed, idx)
        g, paths = fdworld.dag_routes(names, arcs)
        pa = [O.path_arcs(p) for p in paths]
        if len(pa) < 2:
            continue
        got = 0
        for ws in wsets:
            if len(pa) < len(ws):
                continue
            f = {e: 0.0 for e in arcs}
            for p_, w in zip(pa, ws):
                for e in p_:
                    f[e] = f[e] + w
            if any(v == 0 for v in f.values()):
                continue
            out.append({"fam": "dag", "nodes": names, "arcs": [[u, v, f[(u, v)]] for (u, v) in arcs], "float_data": True, "n_routes": len(ws)})
            got += 1
            if got >= per_shape:
                break
    # a star a0,a1,a2 -> m -> x0,x1,x2 carrying three straight-through routes: the in- and out-values of m are the same numbers in
    # another order (float addition is not associative: (0.1+0.4)+0.2 != (0.2+0.1)+0.4, yet the flow is exactly conserving)
    for ws0 in [(0.1, 0.4, 0.2), (0.3, 0.1, 0.7), (0.9, 0.6, 0.4)]:
        for perm in itertools.permutations(range(3)):
            arcs_ = [[f"a{i}", "m", ws0[i]] for i in range(3)] + [["m", f"x{j}", ws0[perm[j]]] for j in range(3)]
            out.append({"fam": "dag", "nodes": ["a0", "a1", "a2", "m", "x0", "x1", "x2"], "arcs": arcs_, "float_data": True, "n_routes": 3, "star33": True})
    # the named 6-node 'kite' (three routes): every weight triple in every order
    kite = [x for x in world.named_dag_shapes() if x[0] == 6 and len(x[1]) == 7]
    for shp in kite:
        names, arcs = world.present(shp, seed, 510)
        g, paths = fdworld.dag_routes(names, arcs)
        pa = [O.path_arcs(p) for p in paths]
        for ws0 in [w for w in wsets if len(w) == 3]:
          for sel in itertools.combinations(pa, 3):
            if set(e for p_ in sel for e in p_) != set(arcs):
                continue
            for ws in sorted(set(itertools.permutations(ws0))):
                f = {e: 0.0 for e in arcs}
                for p_, w in zip(sel, ws):
                    for e in p_:
                        f[e] = f[e] + w
                out.append({"fam": "dag", "nodes": names, "arcs": [[u, v, f[(u, v)]] for (u, v) in arcs], "float_data": True, "n_routes": len(ws), "kite": True})
    return out


def named_dag_instances(tier, seed, per_shape=2, max_w=3):
    out = []
    for idx, shp in enumerate(world.named_dag_shapes()):
        names, arcs = world.present(shp, seed, 500 + idx)
        g, paths = fdworld.dag_routes(names, arcs)
        pa = [O.path_arcs(p) for p in paths]
        flows = sorted(fdworld.fd_flows(pa, arcs, 3, max_w))
        pick = ([flows[0], flows[-1], flows[len(flows) // 2], flows[len(flows) // 3]][:per_shape] if per_shape <= 4 else flows) if flows else []
        for fv in dict.fromkeys(pick):
            out.append({"fam": "dag", "nodes": names, "arcs": [[u, v, w] for (u, v), w in zip(arcs, fv)], "named": True})
    return out


def dag_all_flow_instances(tier, seed, max_arcs, max_routes=3, max_w=2):
    """EVERY positive flow that is a superposition of <= max_routes routes with weights <= max_w, on every DAG shape with
    3..max_arcs arcs (flagged 'named': the consumer sweeps every constraint on them)"""
    out = []
    for idx, shp in enumerate(world.dag_shapes(5)):
        if not (3 <= len(shp[1]) <= max_arcs):
            continue
        names, arcs = world.present(shp, seed, idx)
        g, paths = fdworld.dag_routes(names, arcs)
        pa = [O.path_arcs(p) for p in paths]
        for fv in sorted(fdworld.fd_flows(pa, arcs, max_routes, max_w)):
            out.append({"fam": "dag", "nodes": names, "arcs": [[u, v, w] for (u, v), w in zip(arcs, fv)], "named": True, "allflows": True})
    return out


def spine_instances(tier, seed):
    """The caterpillar: a spine 0-1-2-3-4-5 whose inner nodes 2 and 3 each have one extra in- and out-neighbour, carrying three
    routes (enter at the left end and leave at 2; enter at 2 and leave at 3; enter at 3 and run to the right end). A constraint on the
    inner spine arcs has a non-trivial safe extension on both sides (arcs 0-1 and 4-5) - the input the safety / constraint
    interplay of the DAG models needs. Consumers sweep the lengths of the five spine arcs exhaustively over {1, 4}."""
    shp = [x for x in world.named_dag_shapes() if x[0] == 10][0]
    names, arcs = world.present(shp, seed, 500)
    nm = lambda i: names[i]  # noqa
    spine = [(nm(0), nm(1)), (nm(1), nm(2)), (nm(2), nm(3)), (nm(3), nm(4)), (nm(4), nm(5))]
    routes = [[(0, 1), (1, 2), (2, 6)], [(7, 2), (2, 3), (3, 8)], [(9, 3), (3, 4), (4, 5)]]
    out = []
    for ws in ((3, 2, 1), (1, 1, 1), (1, 2, 3)):
        f = {}
        for r, w in zip(routes, ws):
            for (i, j) in r:
                f[(nm(i), nm(j))] = f.get((nm(i), nm(j)), 0) + w
        out.append({"fam": "dag", "nodes": names, "arcs": [[u, v, f[(u, v)]] for (u, v) in arcs], "named": True,
                    "spine": [list(e) for e in spine]})
    return out


def cyc_instances(tier, seed, per_shape=2, amax=None):
    from .props.c04 import _flows
    q = tier == "quick"
    amax = amax or (5 if q else 6)
    out = []
    shapes = [s for s in world.dig_shapes(4, amax) if not world.is_acyclic(*s)]
    named = [s for s in world.named_shapes() if len(s[1]) <= (6 if q else 8)]
    for idx, shp in enumerate(shapes + named):
        names, arcs = world.present(shp, seed, idx)
        fl = _flows(names, arcs, 2, 2, 2, 4)
        if not fl:
            continue
        pick = [fl[0], fl[-1], fl[len(fl) // 2]][:per_shape]
        for fv in dict.fromkeys(pick):
            out.append({"fam": "cyc", "nodes": names, "arcs": [[u, v, w] for (u, v), w in zip(arcs, fv)]})
    return out


def perturbed(inst):
    arcs = [list(a) for a in inst["arcs"]]
    arcs[0][2] += 1
    if len(arcs) > 2:
        arcs[-1][2] = max(0, arcs[-1][2] - 1)
    return dict(inst, arcs=arcs)


def node_twin(inst):
    """node-weighted twin: node value = inflow (or outflow for sources); arcs carry no attribute"""
    V = inst["nodes"]
    nv = {}
    for v in V:
        inn = sum(a[2] for a in inst["arcs"] if a[1] == v)
        out = sum(a[2] for a in inst["arcs"] if a[0] == v)
        nv[v] = max(inn, out)
    return {"fam": inst["fam"], "nodes": V, "arcs": [[a[0], a[1], None] for a in inst["arcs"]], "node_w": nv}


def with_isolated_node(nt_inst, value=4):
    """node-weighted instance + one node without any arc (a source that is also a sink) carrying `value`: the only route through it is the
    single-node route [q], which every node-mode model has to return like any other route"""
    q = next(x for x in ("q", "q1", "q2", "q3") if x not in nt_inst["nodes"])
    nw = dict(nt_inst["node_w"])
    nw[q] = value
    return dict(nt_inst, nodes=list(nt_inst["nodes"]) + [q], node_w=nw), q


def width_of(inst, ignored=(), starts=(), ends=()):
    E = [(a[0], a[1]) for a in inst["arcs"]]
    g = O.STGraph(inst["nodes"], E, starts, ends)
    return O.min_cover(g, [e for e in E if e not in set(map(tuple, ignored))])


def inner_nodes(inst):
    E = [(a[0], a[1]) for a in inst["arcs"]]
    return [v for v in inst["nodes"] if any(e[1] == v for e in E) and any(e[0] == v for e in E)]


def a_constraint(inst):
    """one 2-arc contiguous constraint along a route, and one non-contiguous pair, if they exist"""
    E = [(a[0], a[1]) for a in inst["arcs"]]
    contig = None
    for (u, v) in E:
        for (x, y) in E:
            if v == x and (u, v) != (x, y) and u != y:
                contig = [[u, v], [x, y]]
                break
        if contig:
            break
    return contig


def flag_sets(cls, level):
    """option dicts: level 0 = default + all-off; 1 = + each single deviation from the default; 2 = + pairs"""
    cyc = is_cyc(cls)
    flags = list(CYC_FLAGS if cyc else DAG_FLAGS)
    defaults = dict(CYC_DEFAULTS if cyc else DAG_DEFAULTS)
    if cls in ("kFlowDecomp", "MinFlowDecomp"):
        flags += FD_DAG_FLAGS
        defaults.update({"optimize_with_greedy": True, "optimize_with_flow_safe_paths": True})
    out = [("default", {})]
    out.append(("all_off", {f: False for f in flags}))
    def fix(d):
        # documented incompatibilities: safe sequences exclude safe paths and flow-safe paths
        if not cyc and d.get("optimize_with_safe_sequences"):
            d = dict(d)
            d.setdefault("optimize_with_safe_paths", False)
            if "optimize_with_flow_safe_paths" in defaults:
                d.setdefault("optimize_with_flow_safe_paths", False)
        return d
    if level >= 1:
        for f in flags:
            out.append((f"{f}={not defaults[f]}", fix({f: (not defaults[f])})))
    if level >= 1 and "optimize_with_greedy" in defaults:
        # safety lists only act through this option once the greedy shortcut is out of the way
        out.append(("safety_as_constraints,greedy_off", fix({"optimize_with_safety_as_subpath_constraints": True, "optimize_with_greedy": False})))
        out.append(("safety_as_constraints,greedy_off,safe_sequences", fix({"optimize_with_safety_as_subpath_constraints": True, "optimize_with_greedy": False, "optimize_with_safe_sequences": True})))
    if level >= 2:
        for f1, f2 in itertools.combinations(flags, 2):
            out.append((f"{f1}={not defaults[f1]},{f2}={not defaults[f2]}", fix({f1: (not defaults[f1]), f2: (not defaults[f2])})))
    if level >= 3:
        for bits in itertools.product((False, True), repeat=len(flags)):
            out.append(("full:" + "".join("1" if b else "0" for b in bits), dict(zip(flags, bits))))
    return out
