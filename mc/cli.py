import argparse
import os
import sys

from . import runner

PROPS = {f"C{i:02d}": f"c{i:02d}" for i in range(1, 21)}


def main():
    ap = argparse.ArgumentParser()
    ap.add_argument("pid")
    ap.add_argument("--tier", default=os.environ.get("VERIF_TIER", "quick"), choices=["quick", "thorough"])
    ap.add_argument("--replay")
    ap.add_argument("--only")
    ap.add_argument("--workers", type=int)
    a = ap.parse_args()
    pid = a.pid.upper()
    if pid not in PROPS:
        print(f"unknown property {pid}")
        sys.exit(2)
    seed = int(os.environ.get("VERIF_SEED", "0") or 0)
    if a.replay:
        sys.exit(runner.replay(pid, PROPS[pid], a.replay))
    sys.exit(runner.run_property(pid, PROPS[pid], a.tier, seed, workers=a.workers, only=a.only))


if __name__ == "__main__":
    main()
