"""Reference models: plain-Python brute force and explicit-state product automata.

Everything here works on the *case description* (node names, arcs, declared starts/ends), never on the
library's own augmented objects, so that a defect in the library's augmentation cannot hide itself.
The synthetic source and sink are called S and T here ("S*", "T*").
"""
import collections
import itertools
from fractions import Fraction

S = "S*"
T = "T*"


class STGraph:
    """Independent s-t augmentation of a digraph given as (nodes, arcs, starts, ends)."""

    def __init__(self, nodes, arcs, starts=(), ends=()):
        self.nodes = list(nodes)
        self.arcs = [tuple(a) for a in arcs]
        indeg = {v: 0 for v in self.nodes}
        outdeg = {v: 0 for v in self.nodes}
        for u, v in self.arcs:
            outdeg[u] += 1
            indeg[v] += 1
        self.starts = [v for v in self.nodes if indeg[v] == 0 or v in set(starts)]
        self.ends = [v for v in self.nodes if outdeg[v] == 0 or v in set(ends)]
        self.succ = {v: [] for v in self.nodes}
        self.pred = {v: [] for v in self.nodes}
        self.succ[S] = list(self.starts)
        self.succ[T] = []
        self.pred[S] = []
        self.pred[T] = list(self.ends)
        for u, v in self.arcs:
            self.succ[u].append(v)
            self.pred[v].append(u)
        for v in self.starts:
            self.pred[v].append(S)
        for v in self.ends:
            self.succ[v].append(T)
        self.all_arcs = self.arcs + [(S, v) for v in self.starts] + [(v, T) for v in self.ends]

    def reach_fwd(self, v):
        seen = {v}
        st = [v]
        while st:
            x = st.pop()
            for y in self.succ[x]:
                if y not in seen:
                    seen.add(y)
                    st.append(y)
        return seen

    def reach_bwd(self, v):
        seen = {v}
        st = [v]
        while st:
            x = st.pop()
            for y in self.pred[x]:
                if y not in seen:
                    seen.add(y)
                    st.append(y)
        return seen

    def scc_of(self):
        """node -> frozenset of its strongly connected component (plain double reachability)."""
        out = {}
        for v in list(self.nodes) + [S, T]:
            if v in out:
                continue
            comp = frozenset(self.reach_fwd(v) & self.reach_bwd(v))
            for w in comp:
                out[w] = comp
        return out

    def is_scc_arc(self, u, v):
        return u in self.reach_fwd(v)

    def simple_paths(self):
        """All S->T simple paths as node lists without S and T (DAGs; also fine on small digraphs)."""
        out = []

        def rec(v, path, seen):
            if v == T:
                out.append(path[1:])
                return
            for w in self.succ[v]:
                if w in seen:
                    continue
                rec(w, path + [w] if w != T else path, seen | {w})
        rec(S, [S], {S})
        return out

    def walks_upto(self, maxlen):
        """All S->T walks (as arc lists incl. S/T arcs) with at most maxlen arcs."""
        out = []

        def rec(v, arcs):
            if v == T:
                out.append(list(arcs))
                return
            if len(arcs) >= maxlen:
                return
            for w in self.succ[v]:
                arcs.append((v, w))
                rec(w, arcs)
                arcs.pop()
        rec(S, [])
        return out


def map_lib_arc(e, lib_source, lib_sink):
    u, v = e
    return (S if u == lib_source else u, T if v == lib_sink else v)


def path_arcs(p):
    return list(zip(p[:-1], p[1:]))


def full_arcs(p):
    """arc list of an S..T route given its node list without S and T"""
    return [(S, p[0])] + path_arcs(p) + [(p[-1], T)]


def contains_contig(arcs, seq):
    m = len(seq)
    if m == 0:
        return True
    return any(arcs[i:i + m] == seq for i in range(len(arcs) - m + 1))


def contains_subseq(arcs, seq):
    j = 0
    for e in arcs:
        if j < len(seq) and e == seq[j]:
            j += 1
    return j == len(seq)


# --------------------------------------------------------------------------------------------------
# Product automata (exact for walks of any length)
# --------------------------------------------------------------------------------------------------

class Stats:
    def __init__(self):
        self.states = 0
        self.transitions = 0
        self.traces = 0


def _kmp_table(seq):
    """deterministic automaton for 'contains seq contiguously': delta[j][arc] -> new j"""
    m = len(seq)
    alphabet = set(seq)
    delta = [dict() for _ in range(m)]
    for j in range(m):
        for a in alphabet:
            # longest k such that seq[:k] is a suffix of seq[:j]+[a]
            cand = seq[:j] + [a]
            k = min(m, j + 1)
            while k > 0 and cand[len(cand) - k:] != seq[:k]:
                k -= 1
            delta[j][a] = k
    return delta


def avoiding_walk(g, seq, through=None, mode="subseq", stats=None):
    """Shortest S->T walk (arc list) that traverses every element of `through` (a list of arcs, in any
    order, each at least once) and does NOT contain `seq` (in order with multiplicity: mode 'subseq';
    contiguously: mode 'contig'). Returns None if no such walk exists. Explicit-state BFS over
    (node, progress j < len(seq), bitmask of traversed `through` arcs)."""
    seq = list(seq)
    m = len(seq)
    if m == 0:
        return None  # the empty sequence is contained in every walk
    through = list(through or [])
    tidx = {e: i for i, e in enumerate(through)}
    full = (1 << len(through)) - 1
    delta = _kmp_table(seq) if mode == "contig" else None
    start = (S, 0, 0)
    parent = {start: None}
    dq = collections.deque([start])
    while dq:
        st = dq.popleft()
        v, j, mask = st
        if stats is not None:
            stats.states += 1
        if v == T:
            if mask == full:
                walk = []
                cur = st
                while parent[cur] is not None:
                    prev, arc = parent[cur]
                    walk.append(arc)
                    cur = prev
                return walk[::-1]
            continue
        for w in g.succ[v]:
            e = (v, w)
            if stats is not None:
                stats.transitions += 1
            if mode == "contig":
                j2 = delta[j].get(e, 0) if m else 0
            else:
                j2 = j + 1 if (j < m and seq[j] == e) else j
            if m and j2 == m:
                continue  # the walk would contain seq
            if m == 0:
                continue  # the empty sequence is contained in every walk
            mask2 = mask | (1 << tidx[e]) if e in tidx else mask
            nst = (w, j2, mask2)
            if nst not in parent:
                parent[nst] = (st, e)
                dq.append(nst)
    return None


def is_safe(g, seq, X, mode="subseq", stats=None):
    """seq is in some walk of every cover of X  <=>  exists x in X such that every S-T walk through x
    contains seq.  X elements are arcs or lists of arcs (constraints).  Returns (safe, witnesses):
    when unsafe, witnesses[x] is an avoiding walk for each x."""
    witnesses = {}
    for x in X:
        thr = [tuple(a) for a in x] if isinstance(x, list) else [tuple(x)]
        w = avoiding_walk(g, seq, through=thr, mode=mode, stats=stats)
        if w is None:
            return True, {}
        witnesses[str(x)] = w
    return False, witnesses


def walk_containing_all(g, seqs, must=None, stats=None):
    """Shortest S->T walk containing every sequence of `seqs` (in-order subsequence with multiplicity)
    and traversing arc `must` (if given); None if none exists. States (node, progress tuple, seen_must)."""
    seqs = [list(s) for s in seqs]
    ms = [len(s) for s in seqs]
    start = (S, tuple(0 for _ in seqs), must is None)
    parent = {start: None}
    dq = collections.deque([start])
    while dq:
        st = dq.popleft()
        v, js, sm = st
        if stats is not None:
            stats.states += 1
        if v == T:
            if sm and all(j == m for j, m in zip(js, ms)):
                walk = []
                cur = st
                while parent[cur] is not None:
                    prev, arc = parent[cur]
                    walk.append(arc)
                    cur = prev
                return walk[::-1]
            continue
        for w in g.succ[v]:
            e = (v, w)
            if stats is not None:
                stats.transitions += 1
            js2 = tuple(j + 1 if (j < m and s[j] == e) else j for j, m, s in zip(js, ms, seqs))
            nst = (w, js2, sm or e == must)
            if nst not in parent:
                parent[nst] = (st, e)
                dq.append(nst)
    return None


def coverable_masks(g, targets, stats=None):
    """All sets (bitmasks over `targets`) of target arcs coverable by a single S->T walk, maximal ones only.
    Explicit-state search over (node, mask): exact for walks of any length."""
    idx = {e: i for i, e in enumerate(targets)}
    start = (S, 0)
    seen = {start}
    dq = collections.deque([start])
    res = set()
    while dq:
        v, mask = dq.popleft()
        if stats is not None:
            stats.states += 1
        if v == T:
            res.add(mask)
            continue
        for w in g.succ[v]:
            e = (v, w)
            if stats is not None:
                stats.transitions += 1
            m2 = mask | (1 << idx[e]) if e in idx else mask
            st = (w, m2)
            if st not in seen:
                seen.add(st)
                dq.append(st)
    return [m for m in res if not any(m != o and (m & o) == m for o in res)]


def min_cover(g, targets, stats=None, constraint_ok=None):
    """Minimum number of S->T walks covering all target arcs (None if impossible, 0 if no targets)."""
    if not targets:
        return 0
    masks = coverable_masks(g, targets, stats)
    full = (1 << len(targets)) - 1
    u = 0
    for m in masks:
        u |= m
    if u != full:
        return None
    for k in range(1, len(targets) + 1):
        for c in itertools.combinations(masks, k):
            u = 0
            for m in c:
                u |= m
            if u == full:
                return k
    return None


# --------------------------------------------------------------------------------------------------
# Exact linear algebra over Fractions
# --------------------------------------------------------------------------------------------------

def _solve_exact(cols, b):
    """Solve sum_j x_j cols[j] = b exactly; return the unique solution if the columns are linearly
    independent and the system is consistent, else None."""
    m = len(b)
    n = len(cols)
    A = [[Fraction(cols[j][i]) for j in range(n)] + [Fraction(b[i])] for i in range(m)]
    row = 0
    piv = []
    for c in range(n):
        p = None
        for r in range(row, m):
            if A[r][c] != 0:
                p = r
                break
        if p is None:
            return None  # dependent columns
        A[row], A[p] = A[p], A[row]
        inv = A[row][c]
        A[row] = [x / inv for x in A[row]]
        for r in range(m):
            if r != row and A[r][c] != 0:
                f = A[r][c]
                A[r] = [x - f * y for x, y in zip(A[r], A[row])]
        piv.append(row)
        row += 1
    for r in range(row, m):
        if A[r][n] != 0:
            return None  # inconsistent
    return [A[i][n] for i in range(n)]


def cone_min_support(cols, b, kmax=None, positive=False):
    """Smallest k such that b is a non-negative (positive if positive=True) rational combination of k of
    the columns (Caratheodory: a minimal representation uses linearly independent columns, so checking
    independent subsets with their unique solution is exact). Returns (k, subset, weights) or None."""
    n = len(cols)
    if all(x == 0 for x in b):
        return (0, (), [])
    kmax = n if kmax is None else min(kmax, n)
    for k in range(1, kmax + 1):
        for sub in itertools.combinations(range(n), k):
            sol = _solve_exact([cols[j] for j in sub], b)
            if sol is None:
                continue
            if all((x > 0) if positive else (x >= 0) for x in sol):
                return (k, sub, sol)
    return None


def in_cone(cols, b):
    return cone_min_support(cols, b) is not None


# --------------------------------------------------------------------------------------------------
# Minimum weighted route decompositions (C03 / C04) and route families
# --------------------------------------------------------------------------------------------------

def _min_hitting(sets, n):
    """min number of indices (from range(n)) hitting every set in `sets`; None if a set is empty"""
    sets = [s for s in sets]
    if not sets:
        return 0
    if any(len(s) == 0 for s in sets):
        return None
    cand = sorted(set().union(*sets))
    for k in range(1, len(sets) + 1):
        for c in itertools.combinations(cand, k):
            cs = set(c)
            if all(s & cs for s in sets):
                return k
    return None


def min_decomp(cols, f, wtype, cons_sets=(), kmax=None):
    """Minimum number of routes (columns; a column gives the number of traversals of each non-ignored
    element) with non-negative weights of type wtype ('int'|'float') such that sum_i w_i col_i == f and every
    constraint (given as the set of route indices that satisfy it) is satisfied by some chosen route (a route
    chosen only for a constraint may have weight 0). Returns (k, witness) or (None, None).
    Exact: int by exhaustive DFS over positive integer weights, float by enumeration of linearly independent
    supports with exact rational solve (a minimum-cardinality positive representation is independent)."""
    n = len(cols)
    m = len(f)
    cons_sets = [set(c) for c in cons_sets]
    best = [None, None]
    kmax = kmax if kmax is not None else n + len(cons_sets)

    def consider(support, weights):
        rem = [c for c in cons_sets if not (c & set(support))]
        extra = _min_hitting(rem, n)
        if extra is None:
            return
        tot = len(support) + extra
        if tot <= kmax and (best[0] is None or tot < best[0]):
            best[0] = tot
            best[1] = {"support": list(support), "weights": [str(w) for w in weights], "extra_zero_weight_routes": extra}

    if all(x == 0 for x in f):
        consider((), ())
        return best[0], best[1]
    if wtype == "int":
        order = sorted(range(n), key=lambda j: -sum(cols[j]))

        def rec(pos, rem, sup, ws):
            if best[0] is not None and len(sup) >= best[0]:
                return
            if all(r == 0 for r in rem):
                consider(tuple(sup), tuple(ws))
                return
            if pos == len(order) or len(sup) >= kmax:
                return
            j = order[pos]
            col = cols[j]
            if any(col):
                mx = min((r // c for r, c in zip(rem, col) if c), default=0)
            else:
                mx = 0
            for w in range(int(mx), 0, -1):
                rec(pos + 1, tuple(r - w * c for r, c in zip(rem, col)), sup + [j], ws + [w])
            rec(pos + 1, rem, sup, ws)
        rec(0, tuple(f), [], [])
    else:
        for k in range(1, min(n, m, kmax) + 1):
            if best[0] is not None and k >= best[0]:
                break
            for sub in itertools.combinations(range(n), k):
                sol = _solve_exact([cols[j] for j in sub], f)
                if sol is None or not all(x > 0 for x in sol):
                    continue
                consider(sub, sol)
                if best[0] is not None and best[0] <= k:
                    break
    return best[0], best[1]


def walk_vectors(g, cap):
    """All multiplicity vectors x over g.arcs (base arcs, x[e] <= cap[e]) that are the arc multiset of a walk
    from a start to an end of g (Euler: balanced at every node except +1 at the start / -1 at the end, the
    support connected from the start). Returns list of (vector tuple, start, end); a vector that admits several
    (start,end) choices is reported once per choice."""
    E = g.arcs
    out = []
    ranges = [range(int(cap[e]) + 1) for e in E]
    starts = set(g.starts)
    ends = set(g.ends)
    for x in itertools.product(*ranges):
        if not any(x):
            continue
        bal = {v: 0 for v in g.nodes}
        for (u, v), c in zip(E, x):
            if c:
                bal[u] += c
                bal[v] -= c
        pos = [v for v in g.nodes if bal[v] > 0]
        neg = [v for v in g.nodes if bal[v] < 0]
        if any(abs(b) > 1 for b in bal.values()) or len(pos) > 1 or len(neg) > 1:
            continue
        cands = []
        if len(pos) == 1 and len(neg) == 1:
            if pos[0] in starts and neg[0] in ends:
                cands = [(pos[0], neg[0])]
        elif not pos and not neg:
            used = set()
            for (u, v), c in zip(E, x):
                if c:
                    used.add(u)
                    used.add(v)
            cands = [(v, v) for v in g.nodes if v in starts and v in ends and v in used]
        for s0, t0 in cands:
            adj = collections.defaultdict(list)
            for (u, v), c in zip(E, x):
                if c:
                    adj[u].append(v)
            seen = {s0}
            st = [s0]
            while st:
                a = st.pop()
                for b in adj[a]:
                    if b not in seen:
                        seen.add(b)
                        st.append(b)
            if all((not c) or (u in seen) for (u, v), c in zip(E, x)):
                out.append((tuple(x), s0, t0))
    return out


def min_cover_constrained(g, targets, constraints, coverage=1.0, stats=None, lengths=None):
    """Minimum number of S->T walks covering all target arcs such that every constraint (list of arcs) has at least
    ceil-free `coverage * len(set(constraint))` of its distinct arcs inside ONE of the walks. None if impossible."""
    cons = [sorted(set(tuple(e) for e in c)) for c in constraints]
    universe = list(dict.fromkeys(list(targets) + [e for c in cons for e in c]))
    masks = coverable_masks(g, universe, stats)
    idx = {e: i for i, e in enumerate(universe)}
    tmask = 0
    for e in targets:
        tmask |= 1 << idx[e]
    cmasks = []
    for c in cons:
        if lengths is None:
            cmasks.append(([(idx[e], 1) for e in c], coverage * len(c)))
        else:
            cmasks.append(([(idx[e], lengths.get(e, 1)) for e in c], coverage * sum(lengths.get(e, 1) for e in c)))

    def ok(combo):
        u = 0
        for m in combo:
            u |= m
        if (u & tmask) != tmask:
            return False
        for bits, need in cmasks:
            if not any(sum(wl for b, wl in bits if m >> b & 1) >= need - 1e-9 for m in combo):
                return False
        return True
    if not targets and not cons:
        return 0
    for k in range(1, len(universe) + 1):
        for combo in itertools.combinations_with_replacement(masks, k) if k <= 3 else itertools.combinations(masks, k):
            if ok(combo):
                return k
    return None
