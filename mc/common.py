"""Binding to the code under test and small shared helpers.

Every worker (and every foreground replay) calls bind() first: it puts $VERIF_REPO (default /repo)
at the front of sys.path, imports flowpaths and aborts if the imported package is not the working
tree under that directory.  Nothing is built: flowpaths is pure Python.
"""
import os
import sys
import warnings

REPO = os.environ.get("VERIF_REPO", "/repo")
VERIF = os.path.dirname(os.path.dirname(os.path.abspath(__file__)))
OUT = os.environ.get("VERIF_OUT", VERIF)  # where evidence/ and replays/ are written (mutation runs redirect it)
GUARD = "FLOWPATHS_VERIF"

_bound = False


def bind():
    global _bound
    if _bound:
        return
    os.environ.setdefault("PYTHONDONTWRITEBYTECODE", "1")
    sys.dont_write_bytecode = True
    os.environ[GUARD] = "1"
    warnings.filterwarnings("ignore")
    repo = os.path.realpath(REPO)
    if sys.path[0] != repo:
        sys.path.insert(0, repo)
    import flowpaths  # noqa
    here = os.path.realpath(flowpaths.__file__)
    if not here.startswith(repo + os.sep):
        raise SystemExit(f"HARNESS ERROR: flowpaths imported from {here}, expected under {repo}")
    import logging
    logging.getLogger("flowpaths").setLevel(logging.CRITICAL + 10)
    try:
        import flowpaths.utils as u
        u.logger.setLevel(logging.CRITICAL + 10)
        u.logger.disabled = True
    except Exception:
        pass
    _bound = True


SOLVER_OPTS = {"threads": 1}


def feq(a, b, tol=1e-6):
    return abs(a - b) <= tol + tol * max(abs(a), abs(b))


def exc_str(e):
    return f"{type(e).__name__}: {str(e)[:160]}"
