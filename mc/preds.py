"""Solution-independent predicates (C01 route validity, C02 exact explanation, cover, constraints)."""
import numbers

from . import oracles as O


def _is_num(x):
    return isinstance(x, numbers.Real) and not isinstance(x, bool)


def route_errors(case, routes, cyclic, starts=(), ends=()):
    """C01 part 1: every route is a real source-to-sink route of the caller's graph."""
    errs = []
    nodes = set(case["nodes"])
    arcs = set((a[0], a[1]) for a in case["arcs"])
    indeg = {v: 0 for v in nodes}
    outdeg = {v: 0 for v in nodes}
    for u, v in arcs:
        outdeg[u] += 1
        indeg[v] += 1
    S = {v for v in nodes if indeg[v] == 0} | set(starts)
    E = {v for v in nodes if outdeg[v] == 0} | set(ends)
    for r in routes:
        if not isinstance(r, list):
            errs.append(f"route {r!r} is not a list")
            continue
        if len(r) == 0:
            continue
        bad = [v for v in r if v not in nodes]
        if bad:
            errs.append(f"route {r} contains nodes {bad} that are not nodes of the caller's graph")
            continue
        for u, v in zip(r[:-1], r[1:]):
            if (u, v) not in arcs:
                errs.append(f"route {r}: ({u},{v}) is not an arc of the graph")
                break
        if r[0] not in S:
            errs.append(f"route {r} starts at {r[0]}, which has incoming arcs and is not a declared start")
        if r[-1] not in E:
            errs.append(f"route {r} ends at {r[-1]}, which has outgoing arcs and is not a declared end")
        if not cyclic and len(set(r)) != len(r):
            errs.append(f"DAG route {r} repeats a node")
    return errs


def shape_errors(sol, rkey, k=None, exact_k=False, weight_type=None, need_weights=True):
    """C01 part 2: one non-negative weight (and slack) per route; count <= k (== k when required)."""
    errs = []
    routes = sol.get(rkey)
    if not isinstance(routes, list):
        return [f"solution has no list under '{rkey}': {type(routes).__name__}"]
    if need_weights:
        w = sol.get("weights")
        if not isinstance(w, list) or len(w) != len(routes):
            errs.append(f"{len(routes)} routes but weights={w!r}")
        else:
            for x in w:
                if not _is_num(x) or x < -1e-9:
                    errs.append(f"weight {x!r} is negative or not a number")
                elif weight_type == "int" and (not isinstance(x, int)):
                    errs.append(f"weight {x!r} is not a Python int although weight_type=int")
                elif weight_type == "float" and (not isinstance(x, float)):
                    errs.append(f"weight {x!r} is not a float although weight_type=float")
    for key in ("slacks", "scaled_slacks"):
        if key in sol:
            s = sol[key]
            if not isinstance(s, list) or len(s) != len(routes):
                errs.append(f"{len(routes)} routes but {key}={s!r}")
            else:
                for x in s:
                    if not _is_num(x) or x < -1e-9:
                        errs.append(f"{key} entry {x!r} is negative or not a number")
    if k is not None:
        n_routes = len(routes) if exact_k else sum(1 for r in routes if len(r) > 0)  # (an empty list is a placeholder, not a route)
        if n_routes > k:
            errs.append(f"k-model with k={k} returned {n_routes} routes")
        if exact_k and len(routes) != k:
            errs.append(f"k-model with k={k} (empty routes not allowed, no additional start/end) returned {len(routes)} routes")
        if exact_k and any(len(r) == 0 for r in routes):
            errs.append("empty route returned although empty routes are not allowed")
    return errs


def traversals(routes, weights):
    """per-arc and per-node explained amount sum_i w_i * (#traversals)"""
    arc = {}
    node = {}
    for r, w in zip(routes, weights):
        for v in r:
            node[v] = node.get(v, 0) + w
        for e in zip(r[:-1], r[1:]):
            arc[e] = arc.get(e, 0) + w
    return arc, node


def explain_errors(case, routes, weights, origin, ignored, weight_type):
    """C02: weight x traversals equals the input value on every non-ignored element."""
    errs = []
    arc, node = traversals(routes, weights)
    ign = set(tuple(x) if isinstance(x, list) else x for x in ignored)
    tol = 0 if weight_type == "int" else 1e-6
    if origin == "edge":
        for a in case["arcs"]:
            e = (a[0], a[1])
            if e in ign or a[2] is None:
                continue
            got = arc.get(e, 0)
            if abs(got - a[2]) > tol + (1e-6 * abs(a[2]) if tol else 0):
                errs.append(f"arc {e}: flow {a[2]} but routes explain {got}")
    else:
        nw = case.get("node_w") or {}
        for v in case["nodes"]:
            if v in ign or nw.get(v) is None:
                continue
            got = node.get(v, 0)
            if abs(got - nw[v]) > tol + (1e-6 * abs(nw[v]) if tol else 0):
                errs.append(f"node {v}: value {nw[v]} but routes explain {got}")
    return errs


def cover_errors(case, routes, cover_type, ignored):
    errs = []
    ign = set(tuple(x) if isinstance(x, list) else x for x in ignored)
    if cover_type == "edge":
        used = set()
        for r in routes:
            used.update(zip(r[:-1], r[1:]))
        for a in case["arcs"]:
            e = (a[0], a[1])
            if e not in ign and e not in used:
                errs.append(f"arc {e} is not ignored but lies on no returned route")
    else:
        used = set()
        for r in routes:
            used.update(r)
        for v in case["nodes"]:
            if v not in ign and v not in used:
                errs.append(f"node {v} is not ignored but lies on no returned route")
    return errs


def constraint_errors(routes, constraints, coverage, cyclic, lengths=None, coverage_length=None):
    """C10: each constraint is contained to the coverage fraction in a single route.
    DAG: number (or total length) of its arcs on the route; cyclic: distinct arcs used >= 1 time."""
    errs = []
    for c in constraints:
        c = [tuple(e) for e in c]
        best = 0
        if coverage_length is not None and lengths is not None:
            need = coverage_length * sum(lengths.get(e, 1) for e in c)
        else:
            cset = set(c) if cyclic else c
            need = coverage * len(cset)
        for r in routes:
            ra = set(zip(r[:-1], r[1:]))
            if coverage_length is not None and lengths is not None:
                got = sum(lengths.get(e, 1) for e in c if e in ra)
            elif cyclic:
                got = len(set(c) & ra)
            else:
                got = sum(1 for e in c if e in ra)
            best = max(best, got)
        if best < need - 1e-9:
            errs.append(f"constraint {c}: best single route contains {best}, needs {need}")
    return errs
