"""E-faults: the harness owns every solver invocation.

SolverWrapper.optimize / get_model_status are wrapped (monkeypatch in the worker process; no source hook).
A *plan* maps the index of a solver invocation (0-based, in program order) to a deviation
(status, ran, via): `ran` = whether the real solver is allowed to run first; via='native' forces the reported
status, via='custom' calls the wrapper's own _timeout_handler after optimize() (exactly what SIGALRM does: the
handler only sets did_timeout, which get_model_status() reads).  Default answer = the real solver result.
"""
import sys

STATUSES = ["kTimeLimit", "kInterrupt", "kUnknown", "kSolutionLimit", "kUnboundedOrInfeasible", "kIterationLimit"]

MODEL_CLASS_NAMES = {"kFlowDecomp", "kFlowDecompCycles", "kMinPathError", "kMinPathErrorCycles", "kLeastAbsErrors", "kLeastAbsErrorsCycles",
                     "kPathCover", "kPathCoverCycles", "MinGenSet", "MinSetCover", "MinErrorFlow"}


class Injector:
    def __init__(self, plan=None):
        self.plan = {int(k): v for k, v in (plan or {}).items()}
        self.calls = []
        self.consumed = []
        self._orig = None

    def __enter__(self):
        import flowpaths.utils.solverwrapper as sw
        self.sw = sw
        self._orig = (sw.SolverWrapper.optimize, sw.SolverWrapper.get_model_status)
        inj = self
        orig_opt, orig_status = self._orig

        def optimize(wrapper):
            n = len(inj.calls)
            owner, k = inj._owner()
            rec = {"idx": n, "owner": owner, "k": k}
            inj.calls.append(rec)
            wrapper._forced_status = None
            dev = inj.plan.get(n)
            if dev is None:
                orig_opt(wrapper)
                rec["real_status"] = orig_status(wrapper)
                return
            status, ran, via = dev
            if ran:
                orig_opt(wrapper)
                rec["real_status"] = orig_status(wrapper)
            else:
                wrapper.did_timeout = False
                rec["real_status"] = None
            if via == "custom":
                wrapper._timeout_handler(14, None)
            else:
                wrapper._forced_status = status
            rec["injected"] = status if via != "custom" else "kTimeLimit(custom)"
            inj.consumed.append(n)

        def get_model_status(wrapper, raw=False):
            fs = getattr(wrapper, "_forced_status", None)
            if fs is not None:
                return fs
            return orig_status(wrapper, raw)

        sw.SolverWrapper.optimize = optimize
        sw.SolverWrapper.get_model_status = get_model_status
        return self

    def __exit__(self, *a):
        self.sw.SolverWrapper.optimize, self.sw.SolverWrapper.get_model_status = self._orig
        return False

    @staticmethod
    def _owner():
        f = sys._getframe(2)
        while f is not None:
            slf = f.f_locals.get("self")
            if slf is not None:
                name = type(slf).__name__
                if name in MODEL_CLASS_NAMES:
                    k = getattr(slf, "k", None)
                    if name == "MinGenSet":
                        k = f.f_locals.get("k", None)
                    return name, k
            f = f.f_back
        return None, None


def deviations(tier):
    out = []
    for st in STATUSES:
        for ran in (True, False):
            out.append((st, ran, "native"))
    out.append(("kTimeLimit", True, "custom"))
    out.append(("kTimeLimit", False, "custom"))
    return out


class ValueNoise:
    """Environment deviation for the value getters: every variable value the library reads from the solver is shifted by
    `delta` (|delta| below the integrality / feasibility tolerance 1e-9 the wrapper configures), i.e. an answer HiGHS is
    allowed to give (48533 may come back as 48532.9999999995). The library reads all values through
    SolverWrapper.get_all_variable_values (get_values / get_variable_values are built on it)."""

    def __init__(self, delta):
        self.delta = delta
        self.reads = 0

    def __enter__(self):
        import flowpaths.utils.solverwrapper as sw
        self.sw = sw
        self._orig = sw.SolverWrapper.get_all_variable_values
        orig = self._orig
        me = self

        def get_all_variable_values(wrapper):
            vals = orig(wrapper)
            me.reads += 1
            return [v + me.delta for v in vals]

        sw.SolverWrapper.get_all_variable_values = get_all_variable_values
        return self

    def __exit__(self, *a):
        self.sw.SolverWrapper.get_all_variable_values = self._orig
        return False
