"""Worlds: the finite spaces of graph shapes that the checks enumerate exhaustively.

A *shape* is (n, arcs) with arcs over node ids 0..n-1, canonical under isomorphism.
A *presentation* turns a shape into string node names and an arc insertion order; VERIF_SEED only
rotates the presentation (every seed covers every shape).

Pure Python + itertools only (no flowpaths import here; the parent process uses this module).
"""
import itertools
import json
import os
import random

_CACHE_DIR = os.path.join(os.path.dirname(os.path.dirname(os.path.abspath(__file__))), ".cache")


def _canon(n, arcs):
    best = None
    for p in itertools.permutations(range(n)):
        e = tuple(sorted((p[u], p[v]) for u, v in arcs))
        if best is None or e < best:
            best = e
    return best


def _reach(n, arcs, starts, rev=False):
    adj = {i: [] for i in range(n)}
    for u, v in arcs:
        if rev:
            adj[v].append(u)
        else:
            adj[u].append(v)
    seen = set(starts)
    st = list(starts)
    while st:
        x = st.pop()
        for y in adj[x]:
            if y not in seen:
                seen.add(y)
                st.append(y)
    return seen


def _ok_digraph(n, arcs):
    """>=1 node of in-degree 0, >=1 of out-degree 0, no isolated node, every arc on a source-sink walk."""
    indeg = [0] * n
    outdeg = [0] * n
    for u, v in arcs:
        outdeg[u] += 1
        indeg[v] += 1
    if any(indeg[i] + outdeg[i] == 0 for i in range(n)):
        return False
    src = [i for i in range(n) if indeg[i] == 0]
    snk = [i for i in range(n) if outdeg[i] == 0]
    if not src or not snk:
        return False
    R = _reach(n, arcs, src)
    B = _reach(n, arcs, snk, rev=True)
    return all(u in R and v in B for u, v in arcs)


def _cached(name, builder):
    path = os.path.join(_CACHE_DIR, name + ".json")
    if os.path.exists(path):
        try:
            with open(path) as f:
                return [(n, tuple(tuple(a) for a in arcs)) for n, arcs in json.load(f)]
        except Exception:
            pass
    out = builder()
    try:
        os.makedirs(_CACHE_DIR, exist_ok=True)
        tmp = path + f".{os.getpid()}.tmp"
        with open(tmp, "w") as f:
            json.dump(out, f)
        os.replace(tmp, path)
    except Exception:
        pass
    return out


def dag_shapes(nmax):
    """All DAGs on 2..nmax nodes without isolated nodes, up to isomorphism (30 for nmax=4, 301+30 for 5)."""
    def build():
        out = []
        for n in range(2, nmax + 1):
            pairs = [(i, j) for i in range(n) for j in range(i + 1, n)]
            seen = set()
            for r in range(1, len(pairs) + 1):
                for es in itertools.combinations(pairs, r):
                    if len(set(x for e in es for x in e)) != n:
                        continue
                    c = _canon(n, es)
                    if c in seen:
                        continue
                    seen.add(c)
                    out.append((n, c))
        return out
    return _cached(f"dag_{nmax}", build)


def dig_shapes(nmax, amax, selfloops=True):
    """All digraphs (domain of the cyclic models) on 2..nmax nodes with <= amax arcs, up to isomorphism."""
    def build():
        out = []
        for n in range(2, nmax + 1):
            arcs = [(i, j) for i in range(n) for j in range(n) if selfloops or i != j]
            seen = set()
            for r in range(1, min(len(arcs), amax) + 1):
                for es in itertools.combinations(arcs, r):
                    if not _ok_digraph(n, es):
                        continue
                    c = _canon(n, es)
                    if c in seen:
                        continue
                    seen.add(c)
                    out.append((n, c))
        return out
    return _cached(f"dig_{nmax}_{amax}_{int(selfloops)}", build)


def is_acyclic(n, arcs):
    indeg = [0] * n
    for u, v in arcs:
        if u == v:
            return False
        indeg[v] += 1
    st = [i for i in range(n) if indeg[i] == 0]
    cnt = 0
    while st:
        x = st.pop()
        cnt += 1
        for u, v in arcs:
            if u == x:
                indeg[v] -= 1
                if indeg[v] == 0:
                    st.append(v)
    return cnt == n


def cyclic_shapes(nmax, amax):
    return [s for s in dig_shapes(nmax, amax) if not is_acyclic(*s)]


# Hand-named larger shapes, one per structural shortcut visible in the code.
NAMED = {
    # nested SCCs: outer cycle 1-2-3-1 with inner 2-cycle 2<->4
    "nested_scc": (6, ((0, 1), (1, 2), (2, 3), (3, 1), (2, 4), (4, 2), (3, 5))),
    # two SCCs in series with two parallel exits between them (condensation multiplicity 2)
    "series_parallel_exits": (6, ((0, 1), (1, 2), (2, 1), (1, 3), (2, 4), (3, 4), (4, 3), (4, 5))),
    # figure eight through node 1
    "figure_eight": (5, ((0, 1), (1, 2), (2, 1), (1, 3), (3, 1), (1, 4))),
    # self-loop on a cycle node
    "selfloop_on_cycle": (4, ((0, 1), (1, 2), (2, 1), (2, 2), (1, 3))),
    # SCC where an arc must be re-traversed (the 7-arc example of DESIGN section 5, C07)
    "retraverse": (6, ((0, 1), (1, 2), (2, 3), (3, 1), (2, 4), (4, 1), (1, 5))),
    # closed walk reachable only through another closed walk
    "cycle_via_cycle": (6, ((0, 1), (1, 2), (2, 1), (2, 3), (3, 4), (4, 3), (3, 2), (1, 5))),
    # two sources, two sinks around one SCC
    "two_in_two_out_scc": (6, ((0, 2), (1, 2), (2, 3), (3, 2), (3, 4), (3, 5))),
    # three parallel exits from one 3-cycle to the same sink (condensation multiplicity 3)
    "fan_out_of_cycle": (5, ((0, 1), (1, 2), (2, 3), (3, 1), (1, 4), (2, 4), (3, 4))),
    # DAG given to a cyclic model: diamond with a chord
    "dag_diamond_chord": (4, ((0, 1), (0, 2), (1, 2), (1, 3), (2, 3))),
    # SCC bypassed by a parallel arc
    "scc_bypass": (4, ((0, 1), (1, 2), (2, 1), (1, 3), (0, 3))),
    # two disjoint SCCs in parallel
    "parallel_sccs": (6, ((0, 1), (0, 2), (1, 3), (3, 1), (2, 4), (4, 2), (1, 5), (2, 5))),
    # pure self loop in the middle of a path
    "selfloop_path": (3, ((0, 1), (1, 1), (1, 2))),
    # bowtie around a self-loop: two sources, two sinks (constraints can pair the "wrong" in- and out-arc)
    "bowtie_selfloop": (5, ((0, 2), (1, 2), (2, 2), (2, 3), (2, 4))),
    # long 3-cycle with exit in the middle
    "three_cycle_mid_exit": (5, ((0, 1), (1, 2), (2, 3), (3, 1), (2, 4))),
}


# Hand-named DAGs larger than the exhaustive bound (spines with side entries/exits, stacked diamonds, a ladder)
NAMED_DAGS = {
    "caterpillar": (10, ((0, 1), (1, 2), (2, 6), (7, 2), (2, 3), (3, 8), (9, 3), (3, 4), (4, 5))),
    "double_diamond": (7, ((0, 1), (0, 2), (1, 3), (2, 3), (3, 4), (3, 5), (4, 6), (5, 6))),
    "ladder": (6, ((0, 1), (0, 2), (1, 2), (1, 3), (2, 4), (3, 4), (3, 5), (4, 5))),
    # a stem, then a branching with a chord and two sinks (three routes; long windows for the flow-safe path scan)
    "kite": (6, ((0, 1), (1, 2), (1, 3), (2, 3), (2, 4), (3, 4), (3, 5))),
}


def named_dag_shapes():
    return [(n, tuple(sorted(arcs))) for k, (n, arcs) in sorted(NAMED_DAGS.items())]


def named_shapes():
    out = []
    for k in sorted(NAMED):
        n, arcs = NAMED[k]
        assert _ok_digraph(n, arcs), k
        out.append((n, tuple(sorted(arcs))))
    return out


_POOL = ["s", "a", "b", "c", "t", "d", "e", "x", "y", "z", "u", "v", "w"]


def present(shape, seed=0, idx=0):
    """Return (names, arcs): names[i] is the string name of node i; arcs is a list of (name_u, name_v)
    in a seed-chosen insertion order. Names are distinct single letters in seed-chosen order, so that
    lexicographic order is unrelated to topological order."""
    n, arcs = shape
    rnd = random.Random((int(seed) * 1000003 + idx * 7919 + 17) & 0xFFFFFFFF)
    names = rnd.sample(_POOL, n) if seed else _POOL_DEFAULT(n)
    arcs = list(arcs)
    if seed:
        rnd.shuffle(arcs)
    return names, [(names[u], names[v]) for u, v in arcs]


def _POOL_DEFAULT(n):
    # seed 0: a fixed, non-topological naming (reverse alphabetical)
    base = ["d", "c", "b", "a", "e", "f", "g", "h", "i", "j", "k", "l", "m"]
    return base[:n]


def shape_key(shape):
    n, arcs = shape
    return f"{n}:" + ",".join(f"{u}{v}" for u, v in arcs)
