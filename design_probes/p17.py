import warnings; warnings.filterwarnings("ignore")
import networkx as nx, flowpaths as fp, itertools, collections, time
from world import *
from p16 import walk_vectors
flags=["optimize_with_safe_sequences","optimize_with_safe_sequences_allow_geq_constraints","optimize_with_safe_sequences_fix_via_bounds","optimize_with_safe_sequences_fix_zero_edges","optimize_with_safety_as_subset_constraints","optimize_with_max_safe_antichain_as_subset_constraints"]
W=[w for w in digraphs(4,6)]
res=collections.Counter(); ex={}; t0=time.time(); cnt=0
for n,es in W[::3]:
    G0=to_nx(n,es)
    if nx.is_directed_acyclic_graph(G0): continue
    st=fp.stDiGraph(G0); E=list(G0.edges())
    base=walk_vectors(st,E,{e:2 for e in E})
    if not base: continue
    v=base[len(base)//2]; v2=base[0]
    f=tuple(a+2*b for a,b in zip(v,v2))
    if not all(x>0 for x in f):
        f=tuple(max(1,x) for x in f)  # for error models any weights
    H=nx.DiGraph()
    for e,x in zip(E,f): H.add_edge(*e,flow=x)
    for cls,kw in [(fp.kLeastAbsErrorsCycles,dict(flow_attr="flow",k=2,weight_type=int)),(fp.kMinPathErrorCycles,dict(flow_attr="flow",k=None,weight_type=int)),(fp.kPathCoverCycles,dict(k=st.get_width()))]:
        base_obs=None
        for vals in itertools.product((False,True),repeat=len(flags)):
            opts=dict(zip(flags,vals)); cnt+=1
            try:
                m=cls(H,optimization_options=dict(opts),solver_options={"threads":1},**kw); r=m.solve()
                obs=(r, round(m.get_objective_value(),6) if r else None)
            except ValueError as e_: obs=("ValueError",str(e_)[:40])
            except BaseException as e_: obs=("EXC "+type(e_).__name__,str(e_)[:60])
            if base_obs is None: base_obs=obs
            if obs!=base_obs:
                key=(cls.__name__,tuple(k[14:] for k,v_ in opts.items() if v_),obs[0] if isinstance(obs[0],str) else "diff")
                res[key]+=1; ex.setdefault(key,(es,f,base_obs,obs))
print(cnt,round(time.time()-t0,1))
for k,v in sorted(res.items(),key=lambda kv:-kv[1])[:40]: print(v,k)
for k in list(ex)[:6]: print(k,ex[k])
