import warnings; warnings.filterwarnings("ignore")
import networkx as nx, flowpaths as fp, itertools, collections, time
from flowpaths.utils import safetypathcovers as sp, safetyflowdecomp as sfd
from world import *
def dags(nmax):
    out=[]
    for n in range(2,nmax+1):
        pairs=[(i,j) for i in range(n) for j in range(i+1,n)]; seen=set()
        for r in range(1,len(pairs)+1):
            for es in itertools.combinations(pairs,r):
                if len(set(x for e in es for x in e))!=n: continue
                c=canon(n,es)
                if c in seen: continue
                seen.add(c); out.append((n,c))
    return out
def all_paths(G,s,t):
    return [p for p in nx.all_simple_paths(G,s,t)]
def contains_contig(path_edges,S):
    m=len(S)
    return any(path_edges[i:i+m]==S for i in range(len(path_edges)-m+1))
def contains_subseq(path_edges,S):
    j=0
    for e in path_edges:
        if j<len(S) and e==S[j]: j+=1
    return j==len(S)
W=dags(5); print(len(W))
bad=0; cnt=0; t0=time.time()
for n,es in W:
    G=to_nx(n,es); st=fp.stDAG(G); E=list(G.edges())
    paths=[list(zip(p[:-1],p[1:])) for p in all_paths(st,st.source,st.sink)]
    Xs=[E]+[[e] for e in E]
    for X in Xs:
        for fn,cont in [(sp.safe_paths,contains_contig),(sp.safe_sequences,contains_subseq)]:
            res=fn(st,X)
            for S in res:
                S=list(S); cnt+=1
                # safe iff exists x in X: all paths through x contain S
                okk=any(all(cont(p,S) for p in paths if x in p) for x in X)
                if not okk:
                    bad+=1
                    if bad<10: print("UNSAFE",fn.__name__,es,X,S)
print("dag seqs",cnt,"bad",bad,round(time.time()-t0,1))
