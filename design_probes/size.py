import itertools, networkx as nx, time
def canon(n, edges):
    best=None
    for p in itertools.permutations(range(n)):
        e=tuple(sorted((p[u],p[v]) for u,v in edges))
        if best is None or e<best: best=e
    return best
# DAGs with topological order fixed, every node non-isolated
for n in [2,3,4,5]:
    pairs=[(i,j) for i in range(n) for j in range(i+1,n)]
    seen=set(); lab=0
    for r in range(1,len(pairs)+1):
        for es in itertools.combinations(pairs,r):
            nodes=set(x for e in es for x in e)
            if len(nodes)!=n: continue
            lab+=1
            seen.add(canon(n,es))
    print("DAG n",n,"labelled(topo-fixed)",lab,"iso",len(seen))
# digraphs w/ self loops, n nodes, >=1 source, >=1 sink, every edge on s-t walk
def ok(n,es):
    G=nx.DiGraph(); G.add_nodes_from(range(n)); G.add_edges_from(es)
    src=[v for v in G if G.in_degree(v)==0]; snk=[v for v in G if G.out_degree(v)==0]
    if not src or not snk: return False
    if any(G.degree(v)==0 for v in G): return False
    R=set(src); 
    for s in src: R|=nx.descendants(G,s)
    B=set(snk)
    for t in snk: B|=nx.ancestors(G,t)
    return all(u in R and v in B for u,v in es)
for n in [2,3,4]:
    arcs=[(i,j) for i in range(n) for j in range(n)]
    seen=set(); lab=0; cyc=0
    t=time.time()
    for r in range(1,min(len(arcs),8)+1):
        for es in itertools.combinations(arcs,r):
            if not ok(n,es): continue
            lab+=1
            c=canon(n,es)
            if c not in seen:
                seen.add(c)
                G=nx.DiGraph(es)
                if not nx.is_directed_acyclic_graph(G): cyc+=1
    print("DIG n",n,"<=8 arcs labelled",lab,"iso",len(seen),"cyclic iso",cyc, round(time.time()-t,1),"s")
