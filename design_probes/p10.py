import warnings; warnings.filterwarnings("ignore")
import networkx as nx, flowpaths as fp, itertools, collections, time
from world import *
from p8 import dags
def lae_int(P,E,f,k,F):
    best=None
    vec=[tuple(1 if e in p else 0 for e in E) for p in P]
    for ps in itertools.combinations_with_replacement(range(len(P)),k):
        for ws in itertools.product(range(F+1),repeat=k):
            err=0
            for j,e in enumerate(E):
                tot=sum(w*vec[p][j] for p,w in zip(ps,ws))
                err+=abs(f[e]-tot)
            if best is None or err<best: best=err
    return best
W=dags(4)
bad=0;cnt=0;t0=time.time()
for n,es in W:
    G=to_nx(n,es); st=fp.stDAG(G); E=list(G.edges())
    if len(E)>4: continue
    P=[tuple(zip(p[1:-2],p[2:-1])) for p in nx.all_simple_paths(st,st.source,st.sink)]
    for fv in itertools.product((0,1,2,3),repeat=len(E)):
        if max(fv)==0: continue
        f=dict(zip(E,fv))
        H=nx.DiGraph()
        for e in E: H.add_edge(*e,flow=f[e])
        for k in (1,2):
            orc=lae_int(P,E,f,k,3)
            cnt+=1
            try:
                m=fp.kLeastAbsErrors(H,flow_attr="flow",k=k,weight_type=int,solver_options={"threads":1}); r=m.solve()
                got=m.get_objective_value() if r else None
                val=m.is_valid_solution() if r else None
            except BaseException as ex:
                got="EXC "+type(ex).__name__; val=None
            if got!=orc or val is not True:
                bad+=1
                if bad<8: print("LAE",es,fv,k,"lib",got,val,"oracle",orc)
print("cases",cnt,"bad",bad,round(time.time()-t0,1))
