import warnings; warnings.filterwarnings("ignore")
import networkx as nx, flowpaths as fp, itertools, collections, time
from world import *
def walk_vectors(st, E, cap):
    # all multiplicity vectors over base edges E (x<=cap[e]) forming an s-t walk in st (source/sink edges chosen implicitly)
    res=[]
    nodes=[v for v in st.nodes() if v not in (st.source,st.sink)]
    starts=[v for (_,v) in st.source_edges]; ends=[u for (u,_) in st.sink_edges]
    for x in itertools.product(*[range(cap[e]+1) for e in E]):
        if sum(x)==0: continue
        xd=dict(zip(E,x))
        bal={v: sum(xd.get((v,w),0) for w in st.successors(v) if w!=st.sink)-sum(xd.get((u,v),0) for u in st.predecessors(v) if u!=st.source) for v in nodes}
        pos=[v for v in nodes if bal[v]==1]; neg=[v for v in nodes if bal[v]==-1]
        if any(abs(b)>1 for b in bal.values()): continue
        if len(pos)==1 and len(neg)==1 and pos[0] in starts and neg[0] in ends: s0=pos[0]
        elif not pos and not neg:
            # closed: start=end node must be both a start and an end -> rare; skip unless node in both
            cands=[v for v in nodes if v in starts and v in ends and any(xd.get((v,w),0) for w in st.successors(v))]
            if not cands: continue
            s0=cands[0]
        else: continue
        H=nx.DiGraph([e for e in E if xd[e]>0])
        if not all(v in (nx.descendants(H,s0)|{s0}) for v in H.nodes()): continue
        res.append(x)
    return res
def min_decomp(vecs,f,kmax):
    best=[None]
    vecs=sorted(vecs,key=lambda v:-sum(v))
    def rec(i,rem,k):
        if best[0] is not None and k>=best[0]: return
        if all(r==0 for r in rem): best[0]=k; return
        if i==len(vecs) or k>=kmax: return
        v=vecs[i]
        mx=min((r//x for r,x in zip(rem,v) if x),default=0)
        for w in range(mx,0,-1):
            rec(i+1,tuple(r-w*x for r,x in zip(rem,v)),k+1)
        rec(i+1,rem,k)
    rec(0,tuple(f),0); return best[0]
if __name__=="__main__":
    W=[w for w in digraphs(4,6)]
    bad=collections.Counter();cnt=0;t0=time.time(); ex={}
    for n,es in W:
        G0=to_nx(n,es)
        if nx.is_directed_acyclic_graph(G0): continue
        st=fp.stDiGraph(G0); E=list(G0.edges())
        base=walk_vectors(st,E,{e:2 for e in E})
        flows=set()
        for r in (1,2):
            for vs in itertools.combinations(base,r):
                for ws in itertools.product((1,2),repeat=r):
                    f=tuple(sum(w*v[j] for v,w in zip(vs,ws)) for j in range(len(E)))
                    if all(x>0 for x in f): flows.add(f)
        flows=sorted(flows)[:12]
        for f in flows:
            vecs=walk_vectors(st,E,dict(zip(E,f)))
            orc=min_decomp(vecs,f,len(E)+2)
            H=nx.DiGraph()
            for e,x in zip(E,f): H.add_edge(*e,flow=x)
            cnt+=1
            try:
                m=fp.MinFlowDecompCycles(H,flow_attr="flow",weight_type=int,solver_options={"threads":1}); r=m.solve()
                got=len(m.get_solution()["walks"]) if r else None
            except BaseException as ex_:
                got="EXC "+type(ex_).__name__
            if got!=orc:
                key=f"lib={got} orc={'|E|' if orc==len(E) else ('>|E|' if orc and orc>len(E) else 'other')}"
                bad[key]+=1; ex.setdefault(key,(es,f,got,orc))
    print("cases",cnt,dict(bad),round(time.time()-t0,1)); print(ex)
