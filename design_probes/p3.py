import warnings; warnings.filterwarnings("ignore")
import networkx as nx, flowpaths as fp
import flowpaths.utils.solverwrapper as sw
def tr(f):
    try: return f()
    except BaseException as e: return f"EXC {type(e).__name__}: {str(e)[:100]}"
# C03: lower bound counts ignored edges' distinct values
P=nx.DiGraph()
for i,(u,v) in enumerate([("a","b"),("b","c"),("c","d"),("d","e"),("e","f")]): P.add_edge(u,v,flow=i+1)
def f():
    m=fp.MinFlowDecomp(P,flow_attr="flow",weight_type=int,elements_to_ignore=[("a","b"),("b","c"),("c","d"),("d","e")]); r=m.solve(); return r, m.get_solution()
print("MFD ignored distinct", tr(f))
# C04 scale
F=nx.DiGraph(); F.add_edge("s","a",flow=1);F.add_edge("a","b",flow=2);F.add_edge("b","a",flow=2);F.add_edge("a","t",flow=1)
for c in [1,2,0.5,0.25]:
    H=nx.DiGraph(); 
    for u,v,d in F.edges(data=True): H.add_edge(u,v,flow=d["flow"]*c)
    def f():
        m=fp.MinFlowDecompCycles(H,flow_attr="flow",weight_type=float); r=m.solve(); return r, (m.get_solution() if r else None)
    print("MFDC scale",c,tr(f))
# C13 MinGenSet continues after time limit?
calls=[]
orig_opt=sw.SolverWrapper.optimize; orig_st=sw.SolverWrapper.get_model_status
def fake_status(self, raw=False):
    if getattr(self,"_forced",None): return self._forced
    return orig_st(self,raw)
def fake_opt(self):
    n=len(calls); calls.append(self)
    orig_opt(self)
    if n==0: self._forced="kTimeLimit"
sw.SolverWrapper.optimize=fake_opt; sw.SolverWrapper.get_model_status=fake_status
def f():
    m=fp.MinGenSet([1,2,3,7],total=13,weight_type=int); r=m.solve(); return r, m.get_solution(), len(calls)
print("MGS fault@0", tr(f))
calls.clear()
S=nx.DiGraph(); S.add_edge("s","a",flow=3); S.add_edge("a","t",flow=3); S.add_edge("s","b",flow=2);S.add_edge("b","t",flow=2);S.add_edge("a","b",flow=0)
G=nx.DiGraph()
for u,v,w in [("s","a",6),("s","b",7),("a","b",2),("a","c",4),("b","c",9),("c","d",6),("c","t",7),("d","t",6)]: G.add_edge(u,v,flow=w)
def f():
    m=fp.MinFlowDecomp(G,flow_attr="flow",weight_type=int,optimization_options={"optimize_with_greedy":False}); r=m.solve(); return r, (len(m.get_solution()["paths"]) if r else None), len(calls)
print("MFD fault@0", tr(f))
sw.SolverWrapper.optimize=orig_opt; sw.SolverWrapper.get_model_status=orig_st
calls.clear()
print("MFD nofault", tr(f))
# C16 cyclic additional starts
C=nx.DiGraph()
for u,v,w in [("s","a",1),("a","b",5),("b","a",4),("a","t",1)]: C.add_edge(u,v,flow=w)
def f():
    m=fp.MinErrorFlow(C,flow_attr="flow",weight_type=int,additional_starts=["a"]); r=m.solve(); s=m.get_solution(); return r, s["error"], sorted(s["graph"].edges(data="flow"))
print("MEF cyc addstart", tr(f))
def f():
    m=fp.MinErrorFlow(C,flow_attr="flow",weight_type=int); r=m.solve(); s=m.get_solution(); return r, s["error"], sorted(s["graph"].edges(data="flow"))
print("MEF cyc", tr(f))
# C19 samples
D=nx.DiGraph(); D.add_edge("s","a",flow=3); D.add_edge("a","t",flow=3)
for name,kw in [("kFlowDecomp",dict(k=0)),("kFlowDecomp",dict(k=1.5)),("kMinPathError",dict(k=0)),("kMinPathError",dict(k=-1)),("kLeastAbsErrors",dict(k=-1)),("kPathCover",dict(k=0)),("kFlowDecompCycles",dict(k=0)),("kMinPathErrorCycles",dict(k=0)),("kLeastAbsErrorsCycles",dict(k=0)),("kPathCoverCycles",dict(k=0)),("kMinPathError",dict(k=1,weight_type=str)),("kMinPathError",dict(k=1,flow_attr_origin="x"))]:
    def f():
        cls=getattr(fp,name)
        if "PathCover" in name: m=cls(D,**kw)
        else: m=cls(D,flow_attr="flow",**kw)
        r=m.solve(); return "NOEXC", r
    print(name,kw,tr(f))
