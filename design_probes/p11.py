import warnings; warnings.filterwarnings("ignore")
import networkx as nx, flowpaths as fp, itertools, collections, time
import flowpaths.abstractwalkmodeldigraph as awm
from world import *
class Stub(awm.AbstractWalkModelDiGraph):
    def __init__(self,G,k): self.G=G; self.k=k; self.edge_vars_sol={}
    def get_solution(self): pass
    def get_lowerbound_k(self): return 1
    def is_valid_solution(self): return True
    def get_objective_value(self): return 0
W=digraphs(4,7)
bad=0;cnt=0;t0=time.time()
for n,es in W:
    base=to_nx(n,es)
    E=list(base.edges())
    # all orders of edge insertion that change per-node out orders: permute E fully if small
    perms=list(itertools.permutations(E)) if len(E)<=5 else [E, E[::-1]]
    for perm in perms:
        G=nx.DiGraph(); G.add_nodes_from(base.nodes()); G.add_edges_from(perm)
        st=fp.stDiGraph(G)
        SE=list(st.edges())
        inner=[v for v in st.nodes() if v not in (st.source,st.sink)]
        for x in itertools.product(range(3),repeat=len(E)):
            mult=dict(zip(E,x))
            # choose source edge and sink edge
            for se in st.source_edges:
                for te in st.sink_edges:
                    full={e:0 for e in SE}; full.update(mult); full[se]=1; full[te]=1
                    # balanced?
                    if any(sum(full[(u,v)] for u in st.predecessors(v))!=sum(full[(v,w)] for w in st.successors(v)) for v in inner): continue
                    # connected: support reachable from source
                    H=nx.DiGraph([e for e in SE if full[e]>0])
                    if not all(v in nx.descendants(H,st.source)|{st.source} for v in H.nodes()): continue
                    m=Stub(st,1); m.edge_vars_sol={(u,v,0):float(c) for (u,v),c in full.items()}
                    walk=m.get_solution_walks()[0]; cnt+=1
                    got=collections.Counter(zip(walk[:-1],walk[1:]))
                    exp=collections.Counter({e:c for e,c in mult.items() if c>0})
                    if got!=exp or walk[0]!=se[1] or walk[-1]!=te[0]:
                        bad+=1
                        if bad<5: print("BAD",perm,mult,walk)
print("cases",cnt,"bad",bad,round(time.time()-t0,1))
