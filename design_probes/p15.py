import warnings; warnings.filterwarnings("ignore")
import networkx as nx, flowpaths as fp, itertools, collections, time
from world import *
from p8 import dags
def mpe_int(P,E,f,k,F):
    best=None
    vec=[tuple(1 if e in p else 0 for e in E) for p in P]
    for ps in itertools.combinations_with_replacement(range(len(P)),k):
        for ws in itertools.product(range(F+1),repeat=k):
            errs=[abs(f[e]-sum(w*vec[p][j] for p,w in zip(ps,ws))) for j,e in enumerate(E)]
            # min total slack: ints rho>=0 with sum_{i through e} rho_i >= err_e
            for rs in itertools.product(range(F+1),repeat=k):
                tot=sum(rs)
                if best is not None and tot>=best: continue
                if all(sum(r*vec[p][j] for p,r in zip(ps,rs))>=errs[j] for j in range(len(E))): best=tot
    return best
W=dags(4)
bad=collections.Counter();cnt=0;t0=time.time(); ex={}
for n,es in W:
    G=to_nx(n,es); st=fp.stDAG(G); E=list(G.edges())
    if len(E)>4: continue
    P=[tuple(zip(p[1:-2],p[2:-1])) for p in nx.all_simple_paths(st,st.source,st.sink)]
    width=st.get_width()
    for fv in itertools.product((0,1,3),repeat=len(E)):
        if max(fv)==0: continue
        f=dict(zip(E,fv))
        H=nx.DiGraph()
        for e in E: H.add_edge(*e,flow=f[e])
        for k in (width,width+1):
            if k>3: continue
            orc=mpe_int(P,E,f,k,3)
            cnt+=1
            try:
                m=fp.kMinPathError(H,flow_attr="flow",k=k,weight_type=int,solver_options={"threads":1}); r=m.solve()
                got=m.get_objective_value() if r else None
                val=m.is_valid_solution() if r else None
            except BaseException as ex_:
                got="EXC "+type(ex_).__name__; val=None
            if got!=orc or val is not True:
                bad[str((got is None, val))]+=1; ex.setdefault(str((got is None,val)),(es,fv,k,got,val,orc))
print("cases",cnt,dict(bad),round(time.time()-t0,1)); print(ex)
