import warnings; warnings.filterwarnings("ignore")
import networkx as nx, flowpaths as fp, itertools, collections, time
from world import *
W=[w for w in digraphs(4,5)]
bad=collections.Counter(); cnt=0; ex={}
t0=time.time()
for n,es in W:
    G0=to_nx(n,es); E=list(G0.edges())
    inner=[v for v in G0 if G0.in_degree(v)>0 and G0.out_degree(v)>0]
    for fv in itertools.product((0,1,3),repeat=len(E)):
        if max(fv)==0: continue
        f=dict(zip(E,fv))
        best=None
        for x in itertools.product(range(0,5),repeat=len(E)):
            xd=dict(zip(E,x))
            if any(sum(xd[(u,v)] for u in G0.predecessors(v))!=sum(xd[(v,w)] for w in G0.successors(v)) for v in inner): continue
            c=sum(abs(f[e]-xd[e]) for e in E)
            if best is None or c<best: best=c
        H=nx.DiGraph()
        for e in E: H.add_edge(*e,flow=f[e])
        for wt in (int,float):
            cnt+=1
            try:
                m=fp.MinErrorFlow(H,flow_attr="flow",weight_type=wt,solver_options={"threads":1}); r=m.solve(); s=m.get_solution()
                Gc=s["graph"]
                rec=sum(abs(f[e]-Gc.edges[e]["flow"]) for e in E)
                cons=all(abs(sum(Gc.edges[(u,v)]["flow"] for u in Gc.predecessors(v))-sum(Gc.edges[(v,w)]["flow"] for w in Gc.successors(v)))<1e-6 for v in inner)
                if not r: bad["unsolved"]+=1
                elif abs(s["error"]-best)>1e-6 or abs(rec-best)>1e-6 or not cons or set(Gc.edges())!=set(E):
                    bad["mismatch"]+=1; ex.setdefault("mismatch",(es,fv,wt.__name__,s["error"],rec,best,cons))
            except BaseException as e_:
                bad["EXC "+type(e_).__name__]+=1; ex.setdefault("exc",(es,fv,str(e_)[:80]))
print(cnt,dict(bad),round(time.time()-t0,1)); print(ex)
