import warnings; warnings.filterwarnings("ignore")
import networkx as nx, flowpaths as fp, itertools, collections, time
from world import *
def walk_exists(G,s,t,seqs,must=None):
    # exists s-t walk containing all seqs as subsequences (and traversing edge must)?
    ms=[len(S) for S in seqs]
    start=(s,tuple(0 for _ in seqs), must is None)
    seen={start}; dq=collections.deque([start])
    while dq:
        v,js,sm=dq.popleft()
        if v==t and all(j==m for j,m in zip(js,ms)) and sm: return True
        for w in G.successors(v):
            e=(v,w)
            js2=tuple(j+1 if j<m and S[j]==e else j for j,m,S in zip(js,ms,seqs))
            st=(w,js2,sm or e==must)
            if st not in seen: seen.add(st); dq.append(st)
    return False
W=digraphs(4,8)
bad=0; npairs=0; nzero=0; t0=time.time()
for n,es in W:
    G=to_nx(n,es)
    E=list(G.edges())
    for ign in [[]]+[[e] for e in E]:
        if len(ign)==len(E): continue
        st0=fp.stDiGraph(G); w=st0.get_width(list(st0.source_sink_edges)+ign)
        if w==0: continue
        try:
            m=fp.kPathCoverCycles(G,k=w,elements_to_ignore=ign,solver_options={"threads":1})
        except Exception as ex:
            print("EXC",es,ign,type(ex).__name__,ex); bad+=1; continue
        st=m.G
        wf=m.walks_to_fix
        for a,b in itertools.combinations(range(len(wf)),2):
            npairs+=1
            if walk_exists(st,st.source,st.sink,[wf[a],wf[b]]):
                bad+=1; print("COMPAT",es,ign,wf[a],wf[b])
        for (u,v,i) in m.edges_set_to_zero:
            nzero+=1
            if walk_exists(st,st.source,st.sink,[wf[i]],must=(u,v)):
                bad+=1; print("ZEROBAD",es,ign,wf[i],(u,v))
print("pairs",npairs,"zero",nzero,"bad",bad,round(time.time()-t0,1))
