import warnings; warnings.filterwarnings("ignore")
import networkx as nx, flowpaths as fp
G=nx.DiGraph(); G.add_edge("s","a",flow=2);G.add_edge("a","t",flow=2);G.add_edge("s","b",flow=5);G.add_edge("b","t",flow=5)
opts={"optimize_with_greedy":True}
m0=fp.kMinPathError(G,flow_attr="flow",k=2,optimization_options={"optimize_with_greedy":True}); m0.solve(); print("fresh", len(m0.get_solution(remove_empty_paths=False)["paths"]), m0.get_objective_value())
m1=fp.kMinPathError(G,flow_attr="flow",k=2,solution_weights_superset=[2,5,7],optimization_options=opts); m1.solve()
print("opts after", sorted(opts.keys()))
m2=fp.kMinPathError(G,flow_attr="flow",k=2,optimization_options=opts); m2.solve(); print("after history", len(m2.get_solution(remove_empty_paths=False)["paths"]), len(m2.get_solution()["paths"]), m2.get_objective_value())
S=nx.DiGraph(); S.add_edge("s","a",flow=1); S.add_edge("s","b",flow=2)
try:
    m=fp.MinFlowDecomp(S,flow_attr="flow",optimization_options={"use_min_gen_set_lowerbound":True}); print(m.solve())
except BaseException as e: print("EXC",type(e).__name__,e)
