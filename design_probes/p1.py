import warnings; warnings.filterwarnings("ignore")
import networkx as nx, flowpaths as fp, traceback
def tr(f):
    try: return f()
    except BaseException as e: return f"EXC {type(e).__name__}: {e}"
# C01/C11 MinPathCover
G=nx.DiGraph(); G.add_edges_from([("s","a"),("a","t"),("s","b"),("b","t")])
def f():
    m=fp.MinPathCover(G); r=m.solve(); return r, m.get_solution()
print("MPC edge", tr(f))
def f():
    m=fp.MinPathCover(G,cover_type="node"); r=m.solve(); return r, m.get_solution()
print("MPC node", tr(f))
def f():
    m=fp.kPathCover(G,k=2,cover_type="node"); r=m.solve(); return r, m.get_solution()
print("kPC node", tr(f))
def f():
    m=fp.kPathCover(G,k=2); r=m.solve(); return r, m.get_solution()
print("kPC edge", tr(f))
C=nx.DiGraph(); C.add_edges_from([("s","a"),("a","b"),("b","a"),("a","t")])
def f():
    m=fp.MinPathCoverCycles(C); r=m.solve(); return r, m.get_solution()
print("MPCC edge", tr(f))
def f():
    m=fp.MinPathCoverCycles(C,cover_type="node"); r=m.solve(); return r, m.get_solution()
print("MPCC node", tr(f))
def f():
    m=fp.kPathCoverCycles(C,k=1,cover_type="node"); r=m.solve(); return r, m.get_solution()
print("kPCC node", tr(f))
# star / single edge
S=nx.DiGraph(); S.add_edge("s","a",flow=1); S.add_edge("s","b",flow=2)
def f():
    m=fp.MinFlowDecomp(S,flow_attr="flow"); r=m.solve(); return r
print("MFD star", tr(f))
# mingenset
def f():
    m=fp.MinGenSet([1,2,4],total=7,weight_type=int); r=m.solve(); return r, m.get_solution()
print("MGS 124", tr(f))
def f():
    m=fp.MinGenSet([1,2,3],total=3,weight_type=int); r=m.solve(); return r, m.get_solution()
print("MGS 123/3", tr(f))
# fix via bounds
F=nx.DiGraph(); F.add_edge("s","a",flow=1);F.add_edge("a","b",flow=2);F.add_edge("b","a",flow=2);F.add_edge("a","t",flow=1)
for opt in [{}, {"optimize_with_safe_sequences_fix_via_bounds":True}]:
    def f():
        m=fp.kFlowDecompCycles(F,flow_attr="flow",k=1,weight_type=int,optimization_options=dict(opt)); r=m.solve(); return r, m.solver.get_model_status()
    print("kFDC", opt, tr(f))
# LAE error scaling
D=nx.DiGraph(); D.add_edge("s","a",flow=3); D.add_edge("a","t",flow=1)
def f():
    m=fp.kLeastAbsErrors(D,flow_attr="flow",k=1,weight_type=int,error_scaling={("s","a"):0.5}); r=m.solve(); return r, m.get_solution(), m.get_objective_value(), m.solver.get_objective_value(), m.is_valid_solution()
print("LAE scaling", tr(f))
# k=0
def f():
    m=fp.kLeastAbsErrors(D,flow_attr="flow",k=0); r=m.solve(); return r, m.get_solution()
print("LAE k=0", tr(f))
# MPE cycles repeated edge
R=nx.DiGraph()
for e in [("s","a"),("a","b"),("b","c"),("c","a"),("b","d"),("d","a"),("a","t")]: R.add_edge(*e,flow=1)
def f():
    m=fp.kMinPathErrorCycles(R,flow_attr="flow",k=None,weight_type=int); r=m.solve(); return m.k, r, m.solver.get_model_status()
print("MPEC retraverse", tr(f))
def f():
    m=fp.kLeastAbsErrorsCycles(R,flow_attr="flow",k=1,weight_type=int); r=m.solve(); return m.k, r, m.get_solution()
print("LAEC retraverse", tr(f))
