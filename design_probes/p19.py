import warnings; warnings.filterwarnings("ignore")
import networkx as nx, flowpaths as fp, itertools, collections, time
from world import *
from p8 import dags
from p7 import min_cover
res=collections.Counter(); ex={}; cnt=0; t0=time.time()
for n,es in dags(5):
    G=to_nx(n,es); E=list(G.edges())
    inner=[v for v in G if G.in_degree(v)>0 and G.out_degree(v)>0]
    for adds in [([],[])]+[([v],[]) for v in inner[:1]]+[([],[v]) for v in inner[:1]]:
        st=fp.stDAG(G,additional_starts=adds[0],additional_ends=adds[1])
        subsets=[()]+[(e,) for e in E]+list(itertools.combinations(E,2))[:6]
        for ign in subsets:
            target=[e for e in E if e not in ign]
            if not target: continue
            orc=min_cover(st,st.source,st.sink,target)
            st2=fp.stDAG(G,additional_starts=adds[0],additional_ends=adds[1])
            w=st2.get_width(list(st2.source_sink_edges)+list(ign)); cnt+=1
            if w!=orc: res["width"]+=1; ex.setdefault("width",(es,adds,ign,w,orc))
            # antichain
            wf={e:1 for e in st2.edges() if e not in st2.source_sink_edges and e not in ign}
            val,ac=st2.compute_max_edge_antichain(get_antichain=True,weight_function=wf)
            reach=st2.reachable_nodes_from
            if val!=orc or len(ac)!=orc or any(b[0] in reach[a[1]] or a[0] in reach[b[1]] for a,b in itertools.combinations(ac,2)):
                res["antichain"]+=1; ex.setdefault("antichain",(es,adds,ign,val,ac,orc))
            if len(E)<=5 and not adds[0] and not adds[1]:
                for k in (orc-1,orc):
                    if k<1: continue
                    try:
                        m=fp.kPathCover(G,k=k,elements_to_ignore=list(ign),solver_options={"threads":1}); r=m.solve()
                    except BaseException as e_: r="EXC "+type(e_).__name__
                    if r!=(k>=orc): res[f"kcover k-orc={k-orc} r={r}"]+=1; ex.setdefault(f"kcover{k-orc}",(es,ign,k,orc,r))
print(cnt,round(time.time()-t0,1)); print(dict(res)); print(ex)
