import warnings; warnings.filterwarnings("ignore")
import networkx as nx, flowpaths as fp, time, itertools
# timing of cyclic MILPs on 4-node graphs, and DAG 5-node
G=nx.DiGraph()
for u,v,w in [("s","a",2),("a","b",3),("b","a",1),("b","b",1),("a","t",0),("b","t",2)]: G.add_edge(u,v,flow=w)
for cls,kw in [(fp.kLeastAbsErrorsCycles,dict(k=2,weight_type=int)),(fp.kMinPathErrorCycles,dict(k=2,weight_type=int)),(fp.kMinPathErrorCycles,dict(k=2,weight_type=float)),(fp.kPathCoverCycles,dict(k=2))]:
    t=time.time()
    if "Cover" in cls.__name__: m=cls(G,solver_options={"threads":1},**kw)
    else: m=cls(G,flow_attr="flow",solver_options={"threads":1},**kw)
    t1=time.time(); r=m.solve(); t2=time.time()
    print(cls.__name__,kw,r,round(t1-t,3),round(t2-t1,3), m.get_solution() if r else None)
D=nx.DiGraph()
for u,v,w in [("s","a",6),("s","b",7),("a","b",2),("a","c",4),("b","c",9),("c","d",6),("c","t",7),("d","t",6)]: D.add_edge(u,v,flow=w)
for cls,kw in [(fp.kLeastAbsErrors,dict(k=3,weight_type=int)),(fp.kMinPathError,dict(k=3,weight_type=int)),(fp.kMinPathError,dict(k=3,weight_type=float)),(fp.kFlowDecomp,dict(k=3,weight_type=float,optimization_options={"optimize_with_greedy":False}))]:
    t=time.time()
    m=cls(D,flow_attr="flow",solver_options={"threads":1},**kw)
    t1=time.time(); r=m.solve(); t2=time.time()
    print(cls.__name__,kw,r,round(t1-t,3),round(t2-t1,3))
