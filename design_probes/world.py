import itertools, networkx as nx
def canon(n, edges):
    best=None
    for p in itertools.permutations(range(n)):
        e=tuple(sorted((p[u],p[v]) for u,v in edges))
        if best is None or e<best: best=e
    return best
def ok(n,es):
    G=nx.DiGraph(); G.add_nodes_from(range(n)); G.add_edges_from(es)
    src=[v for v in G if G.in_degree(v)==0]; snk=[v for v in G if G.out_degree(v)==0]
    if not src or not snk: return False
    if any(G.degree(v)==0 for v in G): return False
    R=set(src)
    for s in src: R|=nx.descendants(G,s)
    B=set(snk)
    for t in snk: B|=nx.ancestors(G,t)
    return all(u in R and v in B for u,v in es)
def digraphs(nmax, maxarcs, selfloops=True):
    out=[]
    for n in range(2,nmax+1):
        arcs=[(i,j) for i in range(n) for j in range(n) if selfloops or i!=j]
        seen=set()
        for r in range(1,min(len(arcs),maxarcs)+1):
            for es in itertools.combinations(arcs,r):
                if not ok(n,es): continue
                c=canon(n,es)
                if c in seen: continue
                seen.add(c); out.append((n,c))
    return out
def to_nx(n,es,names="abcdefgh"):
    G=nx.DiGraph()
    for u,v in es: G.add_edge(names[u],names[v])
    return G
