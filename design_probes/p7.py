import warnings; warnings.filterwarnings("ignore")
import networkx as nx, flowpaths as fp, itertools, collections, time
from world import *
def coverable_sets(G,s,t,target):
    # all maximal subsets of `target` edges coverable by one s-t walk
    idx={e:i for i,e in enumerate(target)}
    start=(s,0); seen={start}; dq=collections.deque([start]); res=set()
    while dq:
        v,mask=dq.popleft()
        if v==t: res.add(mask)
        for w in G.successors(v):
            e=(v,w); m2=mask|(1<<idx[e]) if e in idx else mask
            st=(w,m2)
            if st not in seen: seen.add(st); dq.append(st)
    mx=[m for m in res if not any(m!=o and m&o==m for o in res)]
    return mx
def min_cover(G,s,t,target):
    if not target: return 0
    sets=coverable_sets(G,s,t,target); full=(1<<len(target))-1
    u=0
    for m in sets: u|=m
    if u!=full: return None
    for k in range(1,len(target)+1):
        for c in itertools.combinations(sets,k):
            u=0
            for m in c: u|=m
            if u==full: return k
W=digraphs(4,8)
bad=0; n_=0; t0=time.time()
for n,es in W:
    G=to_nx(n,es); E=list(G.edges())
    st=fp.stDiGraph(G)
    for r in range(0,len(E)):
        for ign in itertools.combinations(E,r):
            target=[e for e in E if e not in ign]
            orc=min_cover(st,st.source,st.sink,target)
            st2=fp.stDiGraph(G)
            w=st2.get_width(list(st2.source_sink_edges)+list(ign))
            n_+=1
            if w!=orc:
                bad+=1
                if bad<15: print("WIDTH",es,ign,"lib",w,"oracle",orc)
print("cases",n_,"bad",bad,round(time.time()-t0,1))
