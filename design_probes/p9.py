import warnings; warnings.filterwarnings("ignore")
import networkx as nx, flowpaths as fp, itertools, collections, time
from world import *
from p8 import dags
def min_int_decomp(paths_e, flow, kmax):
    # paths_e: list of edge tuples; flow dict edge->int ; returns min k with positive int weights
    E=list(flow)
    vecs=[tuple(1 if e in p else 0 for e in E) for p in paths_e]
    f=tuple(flow[e] for e in E)
    best=[None]
    def rec(i,rem,k):
        if best[0] is not None and k>=best[0]: return
        if all(r==0 for r in rem): best[0]=k; return
        if i==len(vecs) or k>=kmax: return
        v=vecs[i]
        mx=min((r for r,x in zip(rem,v) if x),default=0)
        for w in range(mx,0,-1):
            rec(i+1,tuple(r-w*x for r,x in zip(rem,v)),k+1)
        rec(i+1,rem,k)
    rec(0,f,0)
    return best[0]
if __name__=="__main__":
    W=dags(4)
    bad=0;cnt=0;t0=time.time(); kinds=collections.Counter()
    for n,es in W:
        G=to_nx(n,es); st=fp.stDAG(G); E=list(G.edges())
        P=[tuple(zip(p[1:-2],p[2:-1])) for p in nx.all_simple_paths(st,st.source,st.sink)]
        flows=set()
        for r in (1,2,3):
            for ps in itertools.combinations(range(len(P)),r):
                for ws in itertools.product((1,2,3),repeat=r):
                    f={e:0 for e in E}
                    for pi,w in zip(ps,ws):
                        for e in P[pi]: f[e]+=w
                    if all(v>0 for v in f.values()): flows.add(tuple(f[e] for e in E))
        for fv in flows:
            flow=dict(zip(E,fv))
            orc=min_int_decomp(P,flow,len(E)+1)
            H=nx.DiGraph()
            for e in E: H.add_edge(*e,flow=flow[e])
            cnt+=1
            try:
                m=fp.MinFlowDecomp(H,flow_attr="flow",weight_type=int,solver_options={"threads":1}); r=m.solve()
                got=len(m.get_solution()["paths"]) if r else None
            except BaseException as ex:
                got="EXC "+type(ex).__name__
            if got!=orc:
                bad+=1; kinds[(got,orc==len(E))]+=1
                if bad<8: print("MFD",es,fv,"lib",got,"oracle",orc,"|E|",len(E))
    print("cases",cnt,"bad",bad,kinds,round(time.time()-t0,1))
