import warnings; warnings.filterwarnings("ignore")
import networkx as nx, flowpaths as fp, itertools, collections, time
from flowpaths.utils import safetypathcoverscycles as spc
from world import *
def avoids_exists(G,s,t,S,x=None,e_must=None):
    # is there an s-t walk through x (if given) and through e_must (if given) that does NOT contain S as subsequence? returns True if exists
    m=len(S)
    start=(s,0,x is None,e_must is None)
    seen={start}; dq=collections.deque([start])
    while dq:
        v,j,sx,se=dq.popleft()
        if v==t and j<m and sx and se: return True
        for w in G.successors(v):
            e=(v,w)
            j2=j+1 if j<m and S[j]==e else j
            if j2==m: continue  # contains S -> not avoiding; prune (once matched stays matched)
            st=(w,j2,sx or e==x, se or e==e_must)
            if st not in seen: seen.add(st); dq.append(st)
    return False
def safe(G,s,t,S,X):
    return any(not avoids_exists(G,s,t,S,x=x) for x in X)
W=digraphs(4,8)
print(len(W))
bad=0; tot=0; t0=time.time()
for n,es in W:
    G=to_nx(n,es)
    st=fp.stDiGraph(G)
    E=list(G.edges())
    Xs=[set(E)]+[set(c) for r in (1,2) for c in itertools.combinations(E,r)]
    for X in Xs:
        try:
            seqs=spc.maximal_safe_sequences_via_dominators(st,X)
        except Exception as ex:
            print("EXC",es,X,type(ex).__name__,ex); bad+=1; continue
        for S in seqs:
            tot+=1
            if not safe(st,st.source,st.sink,list(S),X):
                bad+=1
                if bad<10: print("UNSAFE",es,sorted(X),S)
print("seqs",tot,"bad",bad,round(time.time()-t0,1))
