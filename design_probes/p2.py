import warnings; warnings.filterwarnings("ignore")
import networkx as nx, flowpaths as fp, traceback, numpy as np
import flowpaths.utils.solverwrapper as sw
def tr(f):
    try: return f()
    except BaseException as e: return f"EXC {type(e).__name__}: {e}"
# C12 getCols order
s=sw.SolverWrapper()
x=s.add_variables([0,1],name_prefix="x",lb=0,ub=5,var_type="integer")
print("has changeColsLower", hasattr(s.solver,"changeColsLower"))
print("getCols", s.solver.getCols(2,np.array([0,1],dtype=np.int32)))
s.queue_set_var_lower_bound(x[0],2)
s.set_objective(s.quicksum([x[0],x[1]]))
s.optimize(); print(s.get_model_status(), s.solver.getCols(2,np.array([0,1],dtype=np.int32)))
# product constraint ub non power of two
for ub in [0,1,2,3,5,6]:
    def f():
        s=sw.SolverWrapper()
        iv=s.add_variables([0],name_prefix="i",lb=0,ub=ub,var_type="integer")
        c=s.add_variables([0],name_prefix="c",lb=0,ub=ub,var_type="continuous")
        p=s.add_variables([0],name_prefix="p",lb=0,ub=ub*ub if ub else 1,var_type="continuous")
        s.add_integer_continuous_product_constraint(iv[0],c[0],p[0],lb=0,ub=ub,name="t")
        s.add_constraint(iv[0]==ub); s.add_constraint(c[0]==1)
        s.set_objective(p[0]+0*c[0]); s.optimize(); return ub, s.get_model_status(), s.get_objective_value()
    print("intprod", tr(f))
# C18 aliasing
G=nx.DiGraph(); G.add_edge("s","a",flow=2);G.add_edge("a","t",flow=2);G.add_edge("s","b",flow=5);G.add_edge("b","t",flow=5)
opts={}
m1=fp.kMinPathError(G,flow_attr="flow",k=2,solution_weights_superset=[2,5,7],optimization_options=opts); m1.solve()
print("opts after", opts.keys())
m2=fp.kMinPathError(G,flow_attr="flow",k=2,optimization_options=opts); m2.solve(); print(len(m2.get_solution(remove_empty_paths=False)["paths"]))
# default-arg mutation?
import inspect
for name in ["kFlowDecomp","kMinPathError","kLeastAbsErrors","kFlowDecompCycles","kMinPathErrorCycles","kLeastAbsErrorsCycles","kPathCover","kPathCoverCycles","MinFlowDecomp","MinFlowDecompCycles","MinPathCover","MinPathCoverCycles","MinErrorFlow"]:
    cls=getattr(fp,name); sig=inspect.signature(cls.__init__)
    print(name,{k:v.default for k,v in sig.parameters.items() if isinstance(v.default,(list,dict)) and v.default})
m=fp.kFlowDecompCycles(G,flow_attr="flow",k=2)
print("after kFDC defaults", {k:v.default for k,v in inspect.signature(fp.kFlowDecompCycles.__init__).parameters.items() if isinstance(v.default,(list,dict)) and v.default})
m=fp.MinFlowDecomp(G,flow_attr="flow"); m.solve()
m=fp.MinFlowDecompCycles(G,flow_attr="flow"); m.solve()
for name in ["MinFlowDecomp","MinFlowDecompCycles","kFlowDecomp","kFlowDecompCycles"]:
    cls=getattr(fp,name); sig=inspect.signature(cls.__init__)
    print(name,{k:(list(v.default) if isinstance(v.default,dict) else v.default) for k,v in sig.parameters.items() if isinstance(v.default,(list,dict)) and v.default})
import flowpaths.abstractpathmodeldag as apm, flowpaths.abstractwalkmodeldigraph as awm
for cls in [apm.AbstractPathModelDAG, awm.AbstractWalkModelDiGraph]:
    sig=inspect.signature(cls.__init__)
    print(cls.__name__,{k:(list(v.default) if isinstance(v.default,dict) else v.default) for k,v in sig.parameters.items() if isinstance(v.default,(list,dict)) and v.default})
