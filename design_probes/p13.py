import warnings; warnings.filterwarnings("ignore")
import flowpaths as fp, itertools, collections, time
def partitions(total,k,minv=0):
    if k==1:
        if total>=minv: yield (total,)
        return
    for a in range(minv,total//k+1):
        for r in partitions(total-a,k-1,a): yield (a,)+r
def gens(g,num,m):
    # num as sub-multiset sum with each element used <= m times
    reach={0}
    for x in g:
        reach={r+c*x for r in reach for c in range(m+1) if r+c*x<=num}
    return num in reach
def oracle(numbers,total,m,kmax=6):
    for k in range(1,kmax+1):
        for g in partitions(total,k):
            if all(gens(g,x,m) for x in numbers): return k,g
    return None,None
bad=collections.Counter(); cnt=0; ex={}
for size in (1,2,3):
  for nums in itertools.combinations(range(1,8),size):
    for total in range(max(nums),sum(nums)+1):
      for m in (1,2):
        k,g=oracle(nums,total,m)
        cnt+=1
        try:
            mg=fp.MinGenSet(list(nums),total=total,weight_type=int,max_multiplicity=m,solver_options={"threads":1}); r=mg.solve()
            sol=mg.get_solution() if r else None
        except BaseException as e:
            r=None; sol="EXC "+type(e).__name__
        if k is None:
            if r: bad["lib solved, oracle none"]+=1; ex.setdefault("a",(nums,total,m,sol))
            continue
        if not r:
            key="unsolved opt==len" if k>=len(nums) else "unsolved other"
            bad[key]+=1; ex.setdefault(key,(nums,total,m,k,g)); continue
        if len(sol)!=k: bad["size"]+=1; ex.setdefault("size",(nums,total,m,sol,k,g))
        elif sum(sol)!=total or not all(gens(sol,x,m) for x in nums): bad["notgen"]+=1; ex.setdefault("notgen",(nums,total,m,sol,k,g))
print(cnt,dict(bad)); print(ex)
