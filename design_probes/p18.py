import warnings; warnings.filterwarnings("ignore")
import networkx as nx, flowpaths as fp, itertools, collections, time
from world import *
from p8 import dags
def expand(G,attr):
    H=nx.DiGraph(); ign=[]
    for v,d in G.nodes(data=True):
        if attr in d: H.add_edge(v+"|i",v+"|o",**{attr:d[attr]})
        else: H.add_edge(v+"|i",v+"|o"); ign.append((v+"|i",v+"|o"))
    for u,v in G.edges(): H.add_edge(u+"|o",v+"|i"); ign.append((u+"|o",v+"|i"))
    return H,ign
res=collections.Counter(); ex={}; cnt=0; t0=time.time()
for n,es in dags(4):
    G0=to_nx(n,es)
    for nv in itertools.product((1,2,3),repeat=n):
        if cnt>4000: break
        for missing in [None]+list(G0.nodes())[:1]:
            G=nx.DiGraph(); 
            for v,x in zip(sorted(G0.nodes()),nv):
                if v==missing: G.add_node(v)
                else: G.add_node(v,flow=x)
            G.add_edges_from(G0.edges())
            H,ign=expand(G,"flow")
            for name,kw in [("kMinPathError",dict(k=2,weight_type=int)),("kLeastAbsErrors",dict(k=2,weight_type=int)),("kMinPathErrorCycles",dict(k=2,weight_type=int)),("kLeastAbsErrorsCycles",dict(k=2,weight_type=int)),("MinFlowDecomp",dict(weight_type=int)),("MinFlowDecompCycles",dict(weight_type=int))]:
                cls=getattr(fp,name); cnt+=1
                def run(g,**extra):
                    try:
                        m=cls(g,flow_attr="flow",solver_options={"threads":1},**kw,**extra); r=m.solve()
                        sol=m.get_solution() if r else None
                        return (r, round(m.get_objective_value(),6) if r else None), sol
                    except BaseException as e_: return ("EXC "+type(e_).__name__,str(e_)[:50]), None
                a,sa=run(G,flow_attr_origin="node"); b,sb=run(H,elements_to_ignore=ign)
                if a!=b:
                    key=(name,str(a[0]),str(b[0]),missing is not None); res[key]+=1; ex.setdefault(key,(es,nv,missing,a,b))
                elif sa:
                    routes=sa.get("paths",sa.get("walks"))
                    okr=all(all(v in G for v in p) and all(G.has_edge(x,y) for x,y in zip(p[:-1],p[1:])) for p in routes)
                    if not okr: res[(name,"badroutes")]+=1; ex.setdefault((name,"badroutes"),(es,nv,missing,routes))
print(cnt,round(time.time()-t0,1))
for k,v in res.items(): print(v,k)
for k in list(ex)[:8]: print(k,ex[k])
