#!/usr/bin/env python3
"""tools/kf.py fixed <property> <commit> <what>   |  tools/kf.py known <property> <id> <matcher> <what>"""
import json, sys
p = "/verif/known_findings.json"
d = json.load(open(p))
if sys.argv[1] == "fixed":
    _, _, prop, commit, what = sys.argv
    d["findings"].append({"status": "fixed", "property": prop, "commit": commit, "what": what,
                          "line": f"fixed: property={prop} {commit} {what}"})
elif sys.argv[1] == "known":
    _, _, prop, fid, matcher, what = sys.argv
    d["findings"].append({"status": "known", "property": prop, "id": fid, "matcher": matcher, "args": {}, "what": what})
json.dump(d, open(p, "w"), indent=1)
print(len(d["findings"]), "entries")
