#!/bin/sh
# tools/mkmut.sh <name> <file-relative-to-repo> <sed-expression>  -> /tmp/muts/<name>/patch.diff
NAME="$1"; FILE="$2"; EXPR="$3"
W=/tmp/w/r
[ -d $W/.git ] || { mkdir -p /tmp/w && rsync -a --exclude .git /repo/ $W/ && (cd $W && git init -q && git add -A >/dev/null && git commit -qm base); }
cd $W && git checkout -q -- . && rsync -a --exclude .git /repo/flowpaths/ $W/flowpaths/ && git add -A >/dev/null && git commit -qm sync >/dev/null 2>&1
sed -i "$EXPR" "$FILE"
mkdir -p /tmp/muts/$NAME
git diff > /tmp/muts/$NAME/patch.diff
git checkout -q -- .
[ -s /tmp/muts/$NAME/patch.diff ] || echo "EMPTY PATCH $NAME"
