import ast,sys
def strip(path):
    src=open(path).read()
    tree=ast.parse(src)
    doc_lines=set()
    for node in ast.walk(tree):
        if isinstance(node,(ast.FunctionDef,ast.ClassDef,ast.Module)):
            if node.body and isinstance(node.body[0],ast.Expr) and isinstance(getattr(node.body[0],'value',None),ast.Constant) and isinstance(node.body[0].value.value,str):
                d=node.body[0]
                for l in range(d.lineno,d.end_lineno+1): doc_lines.add(l)
    out=[]
    for i,l in enumerate(src.split('\n'),1):
        if i in doc_lines: continue
        s=l.strip()
        if not s: continue
        if s.startswith('#'): continue
        if 'utils.logger.' in s and s.endswith(')'): continue
        out.append(f"{i}: {l}")
    return '\n'.join(out)
for f in sys.argv[1:]:
    print('#'*30,f); print(strip(f))
