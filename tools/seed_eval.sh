#!/bin/sh
# tools/seed_eval.sh <ID> <checks...> : evaluate a sub-agent's seeded change (patch + demo saved by the agent in /tmp/wt_<ID>)
# Everything is done on scratch copies of /repo (clean, and clean + patch); the agent's worktree is only read.
ID="$1"; shift
WT=/tmp/wt_$ID
D=/verif/seeded/$ID
mkdir -p $D
[ -f $D/patch.diff ] || cp $WT/seed.patch $D/patch.diff || exit 3
[ -f $D/demo.py ] || cp $WT/demo.py $D/demo.py
SCR=$(mktemp -d /tmp/seedeval_XXXX)
rsync -a --exclude .git /repo/ $SCR/clean/
rsync -a --exclude .git /repo/ $SCR/changed/
( cd $SCR/changed && patch -p1 -s < $D/patch.diff ) || { echo "PATCH FAILED"; rm -rf $SCR; exit 3; }
( cd $SCR/changed && PYTHONPATH=$SCR/changed timeout 900 /venv/bin/python $D/demo.py > $D/demo_changed.log 2>&1 ); C1=$?
( cd $SCR/clean && PYTHONPATH=$SCR/clean timeout 900 /venv/bin/python $D/demo.py > $D/demo_clean.log 2>&1 ); C0=$?
echo "demo: changed exit=$C1 clean exit=$C0" | tee $D/demo_result.txt
if [ "$SKIP_SUITE" != "1" ]; then
  ( cd $SCR/changed && PYTHONPATH=$SCR/changed /venv/bin/python -m pytest -q -p no:cacheprovider --timeout=900 2>&1 | tail -1 > $D/suite.log ); echo "suite: $(cat $D/suite.log)"
fi
rm -rf $SCR
: > $D/checks.log
for P in "$@"; do
  /verif/tools/mutant.sh $D/patch.diff quick $P | tee -a $D/checks.log
done
