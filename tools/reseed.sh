#!/bin/sh
# tools/reseed.sh <ID>... : re-evaluate committed seeded changes on the current tree (demo on changed / clean copy, pinned suite with the
# change, every check that was run for it before) and rewrite meta.json. Patches that no longer applied after later "fix:" commits were
# re-based by hand (same semantic change; the original is kept as patch.orig.diff).
for ID in "$@"; do
  D=/verif/seeded/$ID
  CHECKS=$(python3 -c "import json;d=json.load(open('$D/meta.json'));print(' '.join(sorted(d['quick_checks'])))")
  PROP=$(python3 -c "import json;d=json.load(open('$D/meta.json'));print(d['breaks_property'])")
  NEEDS=$(python3 -c "import json;d=json.load(open('$D/meta.json'));print(d['needs_to_manifest'])")
  SUMM=$(python3 -c "import json;d=json.load(open('$D/meta.json'));print(d['change_summary'])")
  /verif/tools/seed_eval.sh $ID $CHECKS > /tmp/reseed_$ID.log 2>&1
  python3 /verif/tools/seed_meta.py $ID $PROP "$NEEDS" "$SUMM"
done
