#!/bin/sh
# tools/mutant.sh <patch.diff> <tier> <PID> [<PID>...]
# Applies the patch to a scratch copy of /repo (outside /repo and /verif), runs the named checks against it
# (VERIF_REPO), prints their exit codes, removes the copy. Evidence/replays of mutant runs go to the scratch dir.
PATCH="$(realpath "$1")"; TIER="$2"; shift 2
SCR="$(mktemp -d /tmp/mut_XXXXXX)"
rsync -a --exclude .git --exclude '*.pdf' /repo/ "$SCR/repo/"
( cd "$SCR/repo" && patch -p1 -s < "$PATCH" ) || { echo "PATCH FAILED"; rm -rf "$SCR"; exit 3; }
RC=0
for P in "$@"; do
  VERIF_REPO="$SCR/repo" VERIF_OUT="$SCR/out" /verif/check "$P" --tier "$TIER" > "$SCR/$P.log" 2>&1
  C=$?
  echo "mutant $(basename $(dirname "$PATCH")) $P exit=$C $(grep -c '^VIOLATION' "$SCR/$P.log") VIOLATION lines; $(grep -m1 'kind=' "$SCR/$P.log" | cut -c1-200)"
  [ "$C" = "1" ] || RC=1
done
rm -rf "$SCR"
exit $RC
