ENGINES = [
    {"name": "E-inputs", "path": "mc/runner.py + mc/world.py + mc/oracles.py",
     "serves_properties": ["C14"],
     "kind_free_text": "stateless exhaustive enumeration of a bounded input/configuration world, every case executed on the real library, judged by a brute-force reference model written in plain Python"},
]
NOT_APPLICABLE = []
NOTES = "All checks are bounded exhaustive explorations (model-checking family) of the real code imported from /repo; see DESIGN.md. known_findings.json lists genuine defects (fixed / known)."
CHECKS = [
    {"id": "C14", "engine": "E-inputs", "level": "exploration",
     "technique": "exhaustive enumeration of Eulerian multiplicity vectors x all adjacency orders, replayed on the real Hierholzer routine",
     "text": "Every Eulerian s-t multiplicity vector with entries <= B on every digraph shape of the world, under every per-node out-arc order (the routine's only nondeterminism), with noise and in multi-layer stacks, is fed to the real get_solution_walks(); the returned walk's arc multiset must equal the vector exactly. Exhaustive below the bound, so a splice/rounding bug that needs a particular shape+order cannot hide.",
     "note": "Bounded: n<=4 nodes (+ named 5-6 node shapes), multiplicities <= B; trusted: networkx adjacency order semantics; stDiGraph construction itself."},
]
