ENGINES = [
    {"name": "E-states", "path": "mc/oracles.py (product automata) + mc/props/c12.py (model BFS + trace replay) + mc/runner.py",
     "serves_properties": ["C06", "C12"],
     "kind_free_text": "explicit-state search: product automata over graph x pattern, and BFS over operation histories with canonical state hashing whose every transition is replayed on the real implementation"},
    {"name": "E-inputs", "path": "mc/runner.py + mc/world.py + mc/oracles.py",
     "serves_properties": ["C03", "C09", "C14"],
     "kind_free_text": "stateless exhaustive enumeration of a bounded input/configuration world, every case executed on the real library, judged by a brute-force reference model written in plain Python"},
]
NOT_APPLICABLE = []
NOTES = "All checks are bounded exhaustive explorations (model-checking family) of the real code imported from /repo; see DESIGN.md. known_findings.json lists genuine defects (fixed / known)."
CHECKS = [
    {"id": "C03", "engine": "E-inputs", "level": "exploration",
     "technique": "exhaustive enumeration of DAG shapes x all small positive conserving flows x option/ignore/constraint/node-mode variants, real MinFlowDecomp vs brute-force minimum path decomposition (exact int DFS / rational independent-support enumeration)",
     "text": "Completeness and minimality are for-all statements: every DAG shape up to the bound with every flow of the alphabet is solved by the real class under every lower-bound / greedy / guessed-weights option, with every single (and pair of) ignored arc(s), every sub-path constraint and node-weighted twins, and the count is compared with an independent brute-force minimum; the returned solution is also re-checked arc by arc (C01/C02 predicates).",
     "note": "Bounded: n<=4 (quick) / n<=5 arcs<=7 (thorough), flows from <=3 paths with weights<=3. Trusted: Fraction arithmetic; Caratheodory argument for float minima."},
    {"id": "C09", "engine": "E-inputs", "level": "exploration",
     "technique": "exhaustive enumeration of shapes x ignored subsets x cover types x additional start/end; oracle by explicit-state search over (node, covered-set bitmask); real width / Min* / k* models compared with the brute-force minimum cover",
     "text": "Width equals the minimum cover for EVERY ignored subset of every shape in the world (exact reachable-set oracle, walks of any length), Min* classes return valid minimum covers over the caller's graph in edge and node mode, k-models are solved iff k >= minimum.",
     "note": "Bounded: DAG n<=4/5, digraphs n<=4 arcs<=6/8 + named shapes; model runs for ignored sets of size<=1/2. Trusted: oracle min-cover brute force."},
    {"id": "C06", "engine": "E-states", "level": "model_checking",
     "technique": "explicit-state reachability in product automata (graph x pattern progress x flags) over the library's safe sequences; witnesses re-validated, negative verdicts cross-checked by brute-force walk enumeration",
     "text": "Safety quantifies over all covers of X, an unbounded family of walks; the product automaton (node, matched prefix, seen-x) decides it exactly for every shape of the world and every trusted set X (all arcs / singletons / pairs / subsets), every slot pair (incompatibility), every zero- and one-fix of constructed models, DAG safe paths/sequences under 1 and 4 threads, and flow-safe paths against an exact rational cone test. Complete below the bound.",
     "note": "Bounded: n<=4 (+named 5-6 node shapes) cyclic, n<=5 DAGs; flows weights<=3. Trusted: the safety lemma stated in DESIGN C06; Fraction arithmetic."},
    {"id": "C12", "engine": "E-states", "level": "model_checking",
     "technique": "BFS over a dictionary model of the solver wrapper (states deduplicated canonically); every model transition replayed as an operation history on the real SolverWrapper; min/max probing of the product and piecewise helpers on every grid point",
     "text": "The wrapper's observable state after any operation sequence up to depth 5/6 (add variables, replace objective, queue fix / lower-bound, optimize, read values) is compared with a boring dictionary model at every optimize: column bounds read back from HiGHS, status, optimum, values. The helper encodings are probed for exactness (min = max = true product) on every admissible value pair for ub in 0..9 and fractional bounds.",
     "note": "Bounded: <=2 variables, depth<=6, bounds from {0..3}; helpers: ub<=9, ranges within [0,6]. Trusted: HiGHS on <=12-variable models."},
    {"id": "C14", "engine": "E-inputs", "level": "exploration",
     "technique": "exhaustive enumeration of Eulerian multiplicity vectors x all adjacency orders, replayed on the real Hierholzer routine",
     "text": "Every Eulerian s-t multiplicity vector with entries <= B on every digraph shape of the world, under every per-node out-arc order (the routine's only nondeterminism), with noise and in multi-layer stacks, is fed to the real get_solution_walks(); the returned walk's arc multiset must equal the vector exactly. Exhaustive below the bound, so a splice/rounding bug that needs a particular shape+order cannot hide.",
     "note": "Bounded: n<=4 nodes (+ named 5-6 node shapes), multiplicities <= B; trusted: networkx adjacency order semantics; stDiGraph construction itself."},
]
