#!/usr/bin/env python3
"""Regenerates MANIFEST.json from the table below (kept in one place so it is always schema-valid)."""
import json, os, sys
HERE = os.path.dirname(os.path.dirname(os.path.abspath(__file__)))
sys.path.insert(0, HERE)
from tools.manifest_table import CHECKS, NOT_APPLICABLE, ENGINES, NOTES

def main():
    checks = []
    for c in CHECKS:
        pid = c["id"]
        checks.append({
            "property_id": pid,
            "quick_cmd": f"./check {pid} --tier quick",
            "thorough_cmd": f"./check {pid} --tier thorough",
            "evidence_file": f"/verif/evidence/{pid}.json",
            "replay_cmd_template": f"./check {pid} --replay {{path}}",
            "engine": c["engine"],
            "level_claimed": {"category": c["level"], "text": c["text"], "design_ref": c.get("design_ref", f"DESIGN.md section 5, {pid}")},
            "level_note": c["note"],
            "technique": c["technique"],
        })
    claimed = {c["id"] for c in CHECKS}
    na = list(NOT_APPLICABLE)
    for i in range(1, 21):
        pid = f"C{i:02d}"
        if pid not in claimed and pid not in {x["property_id"] for x in na}:
            na.append({"property_id": pid, "reason": "not claimed yet: the bounded exhaustive check designed in DESIGN.md section 5 is not built/committed at this commit"})
    m = {
        "version": 1,
        "setup_cmd": "/venv/bin/python tools/setup.py",
        "hooks": {
            "guard": "FLOWPATHS_VERIF",
            "enable": "no source hooks are needed: flowpaths is pure Python and is imported from /repo's working tree (VERIF_REPO overrides the path); the solver is intercepted by monkeypatching SolverWrapper from the harness process",
            "baseline_off_cmd": "cd /repo && env -u FLOWPATHS_VERIF /venv/bin/python -m pytest -ra -q -p no:cacheprovider --timeout=900 --continue-on-collection-errors",
            "source_commits": [],
            "add_only": True,
        },
        "engines": ENGINES,
        "checks": checks,
        "notes": NOTES,
        "not_applicable": na,
    }
    with open(os.path.join(HERE, "MANIFEST.json"), "w") as f:
        json.dump(m, f, indent=1)
    try:
        import jsonschema
        jsonschema.validate(m, json.load(open("/root/.vp/MANIFEST.schema.json")))
        print("MANIFEST.json valid;", len(checks), "checks,", len(na), "not_applicable")
    except ImportError:
        print("MANIFEST.json written (jsonschema not importable here)")

if __name__ == "__main__":
    main()
