#!/usr/bin/env python3
"""Offline setup: nothing to build (pure Python). Verifies imports, pre-computes the shape worlds into
/verif/.cache (a pure cache: regenerated on demand if missing) and creates output directories."""
import os, sys, time
HERE = os.path.dirname(os.path.dirname(os.path.abspath(__file__)))
sys.path.insert(0, HERE)
os.environ.setdefault("PYTHONDONTWRITEBYTECODE", "1")
from mc import world, common
t = time.time()
for d in ("evidence", "replays", ".cache"):
    os.makedirs(os.path.join(HERE, d), exist_ok=True)
print("dag<=4", len(world.dag_shapes(4)), "dag<=5", len(world.dag_shapes(5)))
print("dig(5,6) without self-loops", len(world.dig_shapes(5, 6, selfloops=False)))
print("dig(4,6)", len(world.dig_shapes(4, 6)), "dig(4,7)", len(world.dig_shapes(4, 7)), "dig(4,8)", len(world.dig_shapes(4, 8)))
common.bind()
import flowpaths, highspy, networkx
print("flowpaths from", flowpaths.__file__, "setup ok in %.1fs" % (time.time() - t))
