#!/usr/bin/env python3
"""tools/seed_meta.py <ID> <property> "<needs>" "<summary>"  -> writes /verif/seeded/<ID>/meta.json from the logs of seed_eval.sh"""
import json, os, sys, re
sid, prop, needs, summary = sys.argv[1:5]
d = f"/verif/seeded/{sid}"
def rd(n):
    p = os.path.join(d, n)
    return open(p).read().strip() if os.path.exists(p) else None
checks = {}
for ln in (rd("checks.log") or "").splitlines():
    m = re.match(r"mutant \S+ (C\d+) exit=(\d+) (\d+) VIOLATION lines; *(.*)", ln)
    if m:
        checks[m.group(1)] = {"exit": int(m.group(2)), "violation_lines": int(m.group(3)), "first": m.group(4)[:300]}
meta = {
    "id": sid, "breaks_property": prop, "origin": "written by an independent sub-agent given only the property text and a scratch worktree",
    "change_summary": summary, "needs_to_manifest": needs,
    "confirmed": {"demo": rd("demo_result.txt"), "suite_with_change": rd("suite.log"),
                  "how": "tools/seed_eval.sh: patch applied to a scratch copy of /repo (outside /repo and /verif); demo.py run on the changed and on a clean copy; pinned suite run on the changed copy; checks run with VERIF_REPO pointing at the changed copy (tools/mutant.sh), copies removed"},
    "quick_checks": checks,
    "caught_by": sorted(k for k, v in checks.items() if v["exit"] == 1),
}
json.dump(meta, open(os.path.join(d, "meta.json"), "w"), indent=1)
print(sid, "caught_by", meta["caught_by"], "| demo:", meta["confirmed"]["demo"], "| suite:", meta["confirmed"]["suite_with_change"])
